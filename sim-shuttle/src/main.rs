//! sdshuttle — engine `shuttlesim`: C20, temporary file names under controlled thread schedules.
//!
//!   sdshuttle run [--tier quick|thorough] [--seed N] [--root DIR] [--jobs N] [--log FILE]
//!   sdshuttle replay <FILE> [--root DIR]
//!   sdshuttle search <cfg-json> <sched-seed> <iterations> <pct-depth> <dir>    (internal child)
//!
//! The library is compiled with --cfg simple_sds_verif_shuttle, which puts shuttle's AtomicUsize
//! behind `temp_file_name`. Every interleaving of the callers is then decided by shuttle's seeded
//! scheduler; a failing schedule is persisted and replayed exactly.

use serde_json::{json, Value};
use std::collections::BTreeSet;
use std::path::{Path, PathBuf};
use std::sync::{Arc, Mutex as StdMutex};
use std::time::Instant;

use shuttle::scheduler::{PctScheduler, RandomScheduler, ReplayScheduler};
use shuttle::{Config, FailurePersistence, Runner};

const DEFAULT_SEED: u64 = 20261004;
const PROP: &str = "C20";

//-----------------------------------------------------------------------------
// Own PRNG (same as the main simulator): one integer decides workload and schedule seeds.

fn splitmix(state: &mut u64) -> u64 {
    *state = state.wrapping_add(0x9E37_79B9_7F4A_7C15);
    let mut z = *state;
    z = (z ^ (z >> 30)).wrapping_mul(0xBF58_476D_1CE4_E5B9);
    z = (z ^ (z >> 27)).wrapping_mul(0x94D0_49BB_1331_11EB);
    z ^ (z >> 31)
}

fn below(state: &mut u64, n: u64) -> u64 {
    (((splitmix(state) as u128) * (n as u128)) >> 64) as u64
}

//-----------------------------------------------------------------------------
// Scenario (plain data)

#[derive(Clone, Debug)]
struct Cfg {
    /// Calls per thread; the number of threads is `calls.len()`.
    calls: Vec<usize>,
    /// Name part per thread.
    parts: Vec<String>,
    /// The spawning thread also requests names while the others run.
    main_calls: usize,
    /// Number of files that already exist under the names the counter will reach next
    /// (a temporary directory that still holds files of an earlier process with the same pid).
    stale: usize,
}

impl Cfg {
    fn to_json(&self) -> Value {
        json!({"calls": self.calls, "parts": self.parts, "main_calls": self.main_calls, "stale": self.stale})
    }

    fn from_json(v: &Value) -> Option<Cfg> {
        Some(Cfg {
            calls: v.get("calls")?.as_array()?.iter().map(|x| x.as_u64().unwrap_or(1) as usize).collect(),
            parts: v.get("parts")?.as_array()?.iter().map(|x| x.as_str().unwrap_or("").to_string()).collect(),
            main_calls: v.get("main_calls")?.as_u64()? as usize,
            stale: v.get("stale").and_then(|x| x.as_u64()).unwrap_or(0) as usize,
        })
    }

    fn generate(seed: u64, index: u64) -> Cfg {
        let mut st = seed ^ index.wrapping_mul(0xD6E8_FEB8_6659_FD93) ^ 0xC20;
        let threads = 2 + below(&mut st, 7) as usize;
        const PARTS: [&str; 24] = ["", "_", "a", "tmp_0_0", "0", "1_2", "name-part", "x_1", "index.gbz", "v1.2", ".", "a.b.c", "x", "./x", "<TMP>/x", "Vec<u64>", "a:b", "what?", "tab\there", "star*|\"q\"", "{pid}", "shard-{count}", "{name}_{pid}_{count}", "{}"];
        let same = below(&mut st, 3) == 0;
        let long = |st: &mut u64| -> String { let n = [200usize, 245, 250, 255, 300][below(st, 5) as usize]; let mut s = String::from("long-"); while s.len() < n { s.push((b'a' + (s.len() % 26) as u8) as char); } s };
        let first = if below(&mut st, 16) == 0 { long(&mut st) } else { PARTS[below(&mut st, 24) as usize].to_string() };
        let mut calls = Vec::new();
        let mut parts = Vec::new();
        for _ in 0..threads {
            calls.push(1 + below(&mut st, 4) as usize);
            parts.push(if same { first.clone() } else if below(&mut st, 20) == 0 { long(&mut st) } else { PARTS[below(&mut st, 24) as usize].to_string() });
        }
        let main_calls = below(&mut st, 3) as usize;
        let stale = if below(&mut st, 4) == 0 { 1 + below(&mut st, 6) as usize } else { 0 };
        Cfg { calls, parts, main_calls, stale }
    }

    fn simpler(&self) -> Vec<Cfg> {
        let mut out = Vec::new();
        if self.calls.len() > 2 {
            for i in 0..self.calls.len() { let mut c = self.clone(); c.calls.remove(i); c.parts.remove(i); out.push(c); }
        }
        if self.main_calls > 0 { let mut c = self.clone(); c.main_calls = 0; out.push(c); }
        if self.stale > 0 { let mut c = self.clone(); c.stale = 0; out.push(c); if self.stale > 1 { let mut c = self.clone(); c.stale = 1; out.push(c); } }
        for i in 0..self.calls.len() { if self.calls[i] > 1 { let mut c = self.clone(); c.calls[i] = 1; out.push(c); } }
        for i in 0..self.parts.len() { if self.parts[i] != "a" { let mut c = self.clone(); c.parts[i] = "a".to_string(); out.push(c); } }
        out
    }
}

/// Process-wide sink for interleaving signatures (std mutex: never held across a scheduling point).
static SIGS: StdMutex<Option<BTreeSet<u64>>> = StdMutex::new(None);
/// Set by the oracle just before it panics, so that a replay does not depend on how shuttle
/// propagates the panic.
static VIOLATED: StdMutex<Option<String>> = StdMutex::new(None);
static EXECUTIONS: std::sync::atomic::AtomicU64 = std::sync::atomic::AtomicU64::new(0);
static STEPS: std::sync::atomic::AtomicU64 = std::sync::atomic::AtomicU64::new(0);

fn scenario(cfg: Arc<Cfg>) -> impl Fn() + Send + Sync + 'static {
    move || {
        use shuttle::sync::Mutex;
        let results: Arc<Mutex<Vec<(usize, String)>>> = Arc::new(Mutex::new(Vec::new()));
        // Stale files: learn where the counter stands from one call per distinct name part, then create files
        // under the next few names by bumping the trailing decimal number of the name (if it has one).
        let mut stale_files: Vec<std::path::PathBuf> = Vec::new();
        if cfg.stale > 0 {
            let mut distinct: Vec<&String> = Vec::new();
            for p in cfg.parts.iter() { if !distinct.contains(&p) { distinct.push(p); } }
            let total_calls: usize = cfg.calls.iter().sum::<usize>() + cfg.main_calls + distinct.len();
            for part in distinct {
                let part = &part.replace("<TMP>", &std::env::temp_dir().to_string_lossy());
                let probe = simple_sds::serialize::temp_file_name(part);
                results.lock().unwrap().push((usize::MAX - 1, probe.to_string_lossy().into_owned()));
                let text = probe.to_string_lossy().into_owned();
                let digits = text.chars().rev().take_while(|c| c.is_ascii_digit()).count();
                if digits == 0 || digits > 18 { continue; }
                let (head, tail) = text.split_at(text.len() - digits);
                if let Ok(n) = tail.parse::<u64>() {
                    // Spread the stale names over the range the coming calls will use.
                    for j in 0..cfg.stale as u64 {
                        let k = 1 + (j * (total_calls as u64 + 1)) / (cfg.stale as u64);
                        let path = std::path::PathBuf::from(format!("{}{}", head, n + k));
                        if std::fs::write(&path, b"stale").is_ok() { stale_files.push(path); }
                    }
                }
            }
        }
        let mut handles = Vec::new();
        for t in 0..cfg.calls.len() {
            let cfg = cfg.clone();
            let results = results.clone();
            handles.push(shuttle::thread::spawn(move || {
                let part = cfg.parts[t].replace("<TMP>", &std::env::temp_dir().to_string_lossy());
                for _ in 0..cfg.calls[t] {
                    let path = simple_sds::serialize::temp_file_name(&part);
                    let s = path.to_string_lossy().into_owned();
                    results.lock().unwrap().push((t, s));
                }
            }));
        }
        for _ in 0..cfg.main_calls {
            let path = simple_sds::serialize::temp_file_name("main");
            results.lock().unwrap().push((usize::MAX, path.to_string_lossy().into_owned()));
        }
        for h in handles { h.join().unwrap(); }
        for f in stale_files.iter() { let _ = std::fs::remove_file(f); }
        let results = results.lock().unwrap();
        // Oracle: pairwise distinct, each contains its caller's name part.
        let mut seen: BTreeSet<&str> = BTreeSet::new();
        for (t, name) in results.iter() {
            if *t == usize::MAX - 1 { if !seen.insert(name.as_str()) { let msg = format!("C20 duplicate: the path {:?} was returned to two calls", name); if let Ok(mut g) = VIOLATED.lock() { *g = Some(msg.clone()); } panic!("{}", msg); } continue; }
            let owned = if *t == usize::MAX { "main".to_string() } else { cfg.parts[*t].replace("<TMP>", &std::env::temp_dir().to_string_lossy()) };
            let part = owned.as_str();
            let file = Path::new(name).file_name().map(|f| f.to_string_lossy().into_owned()).unwrap_or_default();
            let found = if part.contains('/') { name.contains(part) } else { file.contains(part) };
            if !found {
                let msg = format!("C20 name-part: {:?} does not contain the caller's name part {:?}", name, part);
                if let Ok(mut g) = VIOLATED.lock() { *g = Some(msg.clone()); }
                panic!("{}", msg);
            }
            if !seen.insert(name.as_str()) {
                let msg = format!("C20 duplicate: the path {:?} was returned to two calls", name);
                if let Ok(mut g) = VIOLATED.lock() { *g = Some(msg.clone()); }
                panic!("{}", msg);
            }
        }
        // Interleaving signature: thread ids in the order in which their names were recorded.
        let mut h: u64 = 0xcbf2_9ce4_8422_2325;
        let mut trivial = true;
        let mut last_thread: Option<usize> = None;
        let mut finished: BTreeSet<usize> = BTreeSet::new();
        for (t, _) in results.iter() {
            h ^= (*t as u64).wrapping_add(1); h = h.wrapping_mul(0x0000_0100_0000_01B3);
            if let Some(l) = last_thread { if l != *t { finished.insert(l); if finished.contains(t) { trivial = false; } } }
            last_thread = Some(*t);
        }
        EXECUTIONS.fetch_add(1, std::sync::atomic::Ordering::Relaxed);
        STEPS.fetch_add(results.len() as u64, std::sync::atomic::Ordering::Relaxed);
        if !trivial {
            if let Ok(mut g) = SIGS.lock() { g.get_or_insert_with(BTreeSet::new).insert(h); }
        }
    }
}

fn shuttle_config(dir: &Path) -> Config {
    let mut c = Config::new();
    c.failure_persistence = FailurePersistence::File(Some(dir.to_path_buf()));
    c.silence_warnings = true;
    c
}

/// Runs one search in this process. Returns Err(schedule) when an execution violates the oracle.
fn search(cfg: &Cfg, sched_seed: u64, iterations: usize, pct_depth: usize, dir: &Path) -> Result<usize, String> {
    let _ = std::fs::create_dir_all(dir);
    for e in std::fs::read_dir(dir).into_iter().flatten().flatten() { let _ = std::fs::remove_file(e.path()); }
    let config = shuttle_config(dir);
    let cfg = Arc::new(cfg.clone());
    let r = std::panic::catch_unwind(std::panic::AssertUnwindSafe(|| {
        if pct_depth == 0 {
            Runner::new(RandomScheduler::new_from_seed(sched_seed, iterations), config).run(scenario(cfg))
        } else {
            Runner::new(PctScheduler::new_from_seed(sched_seed, pct_depth, iterations), config).run(scenario(cfg))
        }
    }));
    match r {
        Ok(n) => Ok(n),
        Err(_) => {
            let mut files: Vec<PathBuf> = std::fs::read_dir(dir).into_iter().flatten().flatten().map(|e| e.path()).filter(|p| p.file_name().map(|f| f.to_string_lossy().starts_with("schedule")).unwrap_or(false)).collect();
            files.sort();
            let sched = files.first().and_then(|p| std::fs::read_to_string(p).ok()).unwrap_or_default();
            Err(sched)
        },
    }
}

//-----------------------------------------------------------------------------

struct Args { cmd: String, rest: Vec<String>, tier: String, seed: u64, root: PathBuf, out: Option<PathBuf>, jobs: usize, count: Option<u64>, log: Option<PathBuf> }

fn parse() -> Args {
    let argv: Vec<String> = std::env::args().collect();
    if argv.len() < 2 { eprintln!("usage: sdshuttle run|replay|search ..."); std::process::exit(2); }
    let mut a = Args {
        cmd: argv[1].clone(), rest: Vec::new(),
        tier: std::env::var("VERIF_TIER").unwrap_or_else(|_| "quick".into()),
        seed: std::env::var("VERIF_SEED").ok().and_then(|s| s.parse().ok()).unwrap_or(DEFAULT_SEED),
        root: PathBuf::from("/verif"), out: None, jobs: std::thread::available_parallelism().map(|n| n.get()).unwrap_or(4).min(16), count: None, log: None,
    };
    let mut i = 2;
    while i < argv.len() {
        let val = argv.get(i + 1).cloned().unwrap_or_default();
        match argv[i].as_str() {
            "--tier" => { a.tier = val; i += 1; },
            "--seed" => { a.seed = val.parse().unwrap_or(DEFAULT_SEED); i += 1; },
            "--root" => { a.root = PathBuf::from(val); i += 1; },
            "--out" => { a.out = Some(PathBuf::from(val)); i += 1; },
            "--jobs" => { a.jobs = val.parse().unwrap_or(1).max(1); i += 1; },
            "--count" => { a.count = val.parse().ok(); i += 1; },
            "--log" => { a.log = Some(PathBuf::from(val)); i += 1; },
            other => a.rest.push(other.to_string()),
        }
        i += 1;
    }
    a
}

fn scratch_root() -> PathBuf {
    match std::env::var_os("VERIF_SCRATCH") { Some(p) => PathBuf::from(p), None => std::env::temp_dir().join("sdsim-scratch") }
}

fn main() {
    let args = parse();
    let code = match args.cmd.as_str() {
        "search" => child_search(&args),
        "run" => run(&args),
        "replay" => replay(&args),
        _ => { eprintln!("sdshuttle: unknown command"); 2 },
    };
    std::process::exit(code);
}

/// Child: search <cfg-json> <sched-seed> <iterations> <pct-depth> <dir>
/// Prints one JSON line: {"ok":true,"executions":n,"steps":m,"sigs":[..]} or {"ok":false,"schedule":"..."}.
fn child_search(args: &Args) -> i32 {
    if args.rest.len() < 5 { eprintln!("sdshuttle search: missing arguments"); return 2; }
    let cfg = match serde_json::from_str::<Value>(&args.rest[0]).ok().and_then(|v| Cfg::from_json(&v)) { Some(c) => c, None => { eprintln!("bad cfg"); return 2; } };
    let sched_seed: u64 = args.rest[1].parse().unwrap_or(0);
    let iterations: usize = args.rest[2].parse().unwrap_or(1);
    let depth: usize = args.rest[3].parse().unwrap_or(0);
    let dir = PathBuf::from(&args.rest[4]);
    let r = search(&cfg, sched_seed, iterations, depth, &dir);
    let r = match r { Ok(n) if VIOLATED.lock().ok().and_then(|g| g.clone()).is_some() => { let _ = n; Err(String::new()) }, other => other };
    let sigs: Vec<u64> = SIGS.lock().ok().and_then(|g| g.clone()).map(|s| s.into_iter().collect()).unwrap_or_default();
    let ex = EXECUTIONS.load(std::sync::atomic::Ordering::Relaxed);
    let st = STEPS.load(std::sync::atomic::Ordering::Relaxed);
    match r {
        Ok(_) => { println!("{}", json!({"ok": true, "executions": ex, "steps": st, "sigs": sigs})); 0 },
        Err(s) => { println!("{}", json!({"ok": false, "executions": ex, "steps": st, "sigs": sigs, "schedule": s})); 1 },
    }
}

fn spawn_search(cfg: &Cfg, sched_seed: u64, iterations: usize, depth: usize, dir: &Path) -> Result<Value, String> {
    let exe = std::env::current_exe().map_err(|e| e.to_string())?;
    // The names go to the temporary directory; a memory-backed one keeps the stale-file scenarios cheap.
    let tmp = if Path::new("/dev/shm").is_dir() { PathBuf::from("/dev/shm").join(format!("sdshuttle-tmp-{}", std::process::id())) } else { dir.join("tmp") };
    let _ = std::fs::create_dir_all(&tmp);
    let mut child = std::process::Command::new(exe)
        .env("TMPDIR", &tmp)
        .arg("search").arg(cfg.to_json().to_string()).arg(sched_seed.to_string()).arg(iterations.to_string()).arg(depth.to_string()).arg(dir)
        .stdout(std::process::Stdio::piped()).stderr(std::process::Stdio::null()).spawn().map_err(|e| e.to_string())?;
    // Watchdog: a search that does not finish is killed (a spin that shuttle's step bound does not see).
    let limit = std::env::var("VERIF_HANG_SECS").ok().and_then(|s| s.parse::<u64>().ok()).unwrap_or(120);
    let started = Instant::now();
    let mut stdout = child.stdout.take().unwrap();
    let reader = std::thread::spawn(move || { let mut buf = Vec::new(); let _ = std::io::Read::read_to_end(&mut stdout, &mut buf); buf });
    let status = loop {
        match child.try_wait() {
            Ok(Some(st)) => break st,
            Ok(None) => {
                if started.elapsed().as_secs() > limit + (iterations as u64) / 50 { let _ = child.kill(); let _ = child.wait(); let _ = reader.join(); return Ok(json!({"ok": false, "executions": 0, "steps": 0, "sigs": [], "schedule": "", "hang": true})); }
                std::thread::sleep(std::time::Duration::from_millis(2));
            },
            Err(e) => return Err(e.to_string()),
        }
    };
    let out_bytes = reader.join().unwrap_or_default();
    struct Out { stdout: Vec<u8>, status: std::process::ExitStatus }
    let out = Out { stdout: out_bytes, status };
    let text = String::from_utf8_lossy(&out.stdout);
    let line = text.lines().last().unwrap_or("");
    serde_json::from_str::<Value>(line).map_err(|e| format!("child gave no result ({}); status {:?}", e, out.status))
}

fn run(args: &Args) -> i32 {
    let thorough = args.tier == "thorough";
    // (configurations, schedules per configuration)
    let (configs, iters): (u64, usize) = if thorough { (args.count.unwrap_or(25_000), 500) } else { (args.count.unwrap_or(3000), 100) };
    println!("sdshuttle: property={} tier={} VERIF_SEED={} configurations={} schedules_each={} jobs={}", PROP, args.tier, args.seed, configs, iters, args.jobs);
    let start = Instant::now();
    let base = scratch_root().join(format!("shuttle-{}", std::process::id()));
    let _ = std::fs::create_dir_all(&base);
    let next = std::sync::atomic::AtomicU64::new(0);
    let merged: StdMutex<(BTreeSet<u64>, u64, u64, Vec<(u64, Cfg, String, u64, usize)>, Vec<String>, Vec<(u64, u64, bool, u64)>)> = StdMutex::new((BTreeSet::new(), 0, 0, Vec::new(), Vec::new(), Vec::new()));
    std::thread::scope(|scope| {
        for w in 0..args.jobs {
            let next = &next; let merged = &merged; let base = &base;
            let seed = args.seed;
            scope.spawn(move || {
                let dir = base.join(format!("w{}", w));
                loop {
                    let i = next.fetch_add(1, std::sync::atomic::Ordering::Relaxed);
                    if i >= configs { break; }
                    let cfg = Cfg::generate(seed, i);
                    let mut st = seed ^ i.wrapping_mul(0x9E37_79B9) ^ 0x5C4ED;
                    let sched_seed = splitmix(&mut st);
                    // Thorough: every third configuration uses PCT with depth 1..3.
                    let depth = if thorough && i % 3 == 2 { 1 + (i / 3 % 3) as usize } else { 0 };
                    match spawn_search(&cfg, sched_seed, iters, depth, &dir) {
                        Ok(v) => {
                            let mut g = merged.lock().unwrap();
                            for s in v.get("sigs").and_then(|s| s.as_array()).into_iter().flatten() { if let Some(x) = s.as_u64() { g.0.insert(x); } }
                            g.1 += v.get("executions").and_then(|x| x.as_u64()).unwrap_or(0);
                            g.2 += v.get("steps").and_then(|x| x.as_u64()).unwrap_or(0);
                            let ok = v.get("ok").and_then(|x| x.as_bool()).unwrap_or(false);
                            let mut sh: u64 = 0xcbf2_9ce4_8422_2325;
                            for s in v.get("sigs").and_then(|s| s.as_array()).into_iter().flatten() { sh ^= s.as_u64().unwrap_or(0); sh = sh.wrapping_mul(0x0000_0100_0000_01B3); }
                            g.5.push((i, v.get("executions").and_then(|x| x.as_u64()).unwrap_or(0), ok, sh));
                            if !ok {
                                let sched = v.get("schedule").and_then(|s| s.as_str()).unwrap_or("").to_string();
                                g.3.push((i, cfg, sched, sched_seed, depth));
                            }
                        },
                        Err(e) => { merged.lock().unwrap().4.push(format!("configuration {}: {}", i, e)); },
                    }
                }
            });
        }
    });
    let (sigs, executions, steps, mut failures, harness, mut log) = merged.into_inner().unwrap();
    failures.sort_by_key(|f| f.0);
    log.sort();
    if let Some(path) = &args.log {
        let text: String = log.iter().map(|(i, e, ok, sh)| format!("{} {} {} {:016x}\n", i, e, ok, sh)).collect();
        let _ = std::fs::write(path, text);
    }
    let explore_s = start.elapsed().as_secs_f64();
    let mut reported = 0u64;
    let mut harness_errors = harness.len() as u64;
    for h in harness.iter() { println!("HARNESS-ERROR {}", h); }
    let known_open = load_known(&args.root);
    let mut known_hits = 0;
    if let Some((index, cfg, sched, sched_seed, depth)) = failures.first().cloned() {
        if let Some(what) = known_open.iter().find(|k| k.0 == PROP).map(|k| k.1.clone()) {
            println!("KNOWN-FINDING: property={} {}", PROP, what);
            known_hits += 1;
        } else {
            // Minimise the configuration: fewer threads, fewer calls, simpler names; each candidate gets a fresh schedule search.
            let dir = base.join("min");
            let mut cur = cfg.clone();
            let mut cur_sched = sched.clone();
            let mut steps_min = 0u64;
            let t0 = Instant::now();
            loop {
                let mut improved = false;
                for cand in cur.simpler() {
                    if t0.elapsed().as_secs() > 120 { break; }
                    if let Ok(v) = spawn_search(&cand, sched_seed, 2000, depth, &dir) {
                        if v.get("ok").and_then(|x| x.as_bool()) == Some(false) {
                            cur = cand; cur_sched = v.get("schedule").and_then(|s| s.as_str()).unwrap_or("").to_string();
                            steps_min += 1; improved = true; break;
                        }
                    }
                }
                if !improved { break; }
            }
            let rdir = args.out.clone().unwrap_or_else(|| args.root.clone()).join("replays");
            let _ = std::fs::create_dir_all(&rdir);
            let path = rdir.join(format!("{}-duplicate-{}-{}.json", PROP, args.seed, index));
            let file = json!({"property": PROP, "seed": args.seed, "index": index, "tier": args.tier, "clause": "duplicate-or-name-part", "shrink_steps": steps_min,
                "scenario": cur.to_json(), "schedule": cur_sched, "original_scenario": cfg.to_json(), "original_schedule": sched});
            let _ = std::fs::write(&path, serde_json::to_string_pretty(&file).unwrap());
            // Fresh-process confirmation.
            let exe = std::env::current_exe().unwrap();
            let out = std::process::Command::new(exe).arg("replay").arg(&path).arg("--root").arg(&args.root).stderr(std::process::Stdio::null()).output();
            match out {
                Ok(o) if o.status.code() == Some(1) => {
                    println!("violation: property={} configuration {} under schedule seed {} (shrunk in {} steps to {})", PROP, index, sched_seed, steps_min, cur.to_json());
                    println!("VIOLATION property={} replay={}", PROP, path.display());
                    reported += 1;
                },
                _ => { println!("HARNESS-ERROR property={} replay {} did not reproduce in a fresh process", PROP, path.display()); harness_errors += 1; },
            }
        }
    }
    let wall = start.elapsed().as_secs_f64();
    let _ = std::fs::remove_dir_all(&base);
    let _ = std::fs::remove_dir_all(PathBuf::from("/dev/shm").join(format!("sdshuttle-tmp-{}", std::process::id())));
    let samples: Vec<Value> = (0..3u64).map(|i| json!({"index": i, "scenario": Cfg::generate(args.seed, i).to_json(), "schedules": iters})).collect();
    let evidence = json!({
        "property_id": PROP, "tier": args.tier, "seed": args.seed, "level": "exploration",
        "wall_s": (wall * 1000.0).round() / 1000.0, "violations": reported,
        "coverage": {
            "evaluations": executions,
            "distinct_nontrivial": sigs.len(),
            "rule": "VERIF_SEED x index -> configuration (2-8 threads, 1-4 calls each, name parts, optional calls from the spawning thread); each configuration runs under shuttle's seeded RandomScheduler (thorough: every third under PCT depth 1-3) for a fixed number of schedules. evaluations = executions (one schedule each). distinct_nontrivial = distinct orders in which threads recorded the names they obtained, counting only orders in which some thread was overtaken (not 'each thread runs to completion in turn').",
            "samples": samples,
            "configurations": configs,
            "simulated_steps": steps,
            "simulated_time": "not applicable: no clock in the code under test; a step is one temp_file_name call under the controlled scheduler",
            "runs_per_hour": if explore_s > 0.0 { (executions as f64 / explore_s * 3600.0).round() } else { 0.0 },
            "faults_fired": {"T1-interleaving (executions with an overtaken thread, distinct orders)": sigs.len()},
            "known_findings_seen": known_hits,
            "harness_errors": harness_errors,
            "exhaustive": false,
            "real_vs_stub": {"real": ["serialize::temp_file_name"], "stub": ["the atomic counter is shuttle's AtomicUsize (SeqCst model)", "the thread scheduler"]},
        },
        "assumptions": ["shuttle models all atomic orderings as sequentially consistent", "sampling of schedules, not enumeration"],
    });
    let edir = args.out.clone().unwrap_or_else(|| args.root.clone()).join("evidence");
    let _ = std::fs::create_dir_all(&edir);
    if std::fs::write(edir.join("C20.json"), serde_json::to_string_pretty(&evidence).unwrap()).is_err() { println!("HARNESS-ERROR cannot write evidence"); harness_errors += 1; }
    println!("sdshuttle: property={} configurations={} executions={} distinct_interleavings={} violations={} wall={:.1}s", PROP, configs, executions, sigs.len(), reported, wall);
    if reported > 0 { 1 } else if harness_errors > 0 { 2 } else { 0 }
}

fn load_known(root: &Path) -> Vec<(String, String)> {
    let mut out = Vec::new();
    if let Ok(text) = std::fs::read_to_string(root.join("known_findings.txt")) {
        for line in text.lines() {
            if let Some(rest) = line.trim().strip_prefix("open:") {
                let mut prop = String::new(); let mut what = Vec::new();
                for tok in rest.split_whitespace() { if let Some(v) = tok.strip_prefix("property=") { prop = v.to_string(); } else { what.push(tok); } }
                out.push((prop, what.join(" ")));
            }
        }
    }
    out
}

fn replay(args: &Args) -> i32 {
    let path = match args.rest.first() { Some(p) => p.clone(), None => { println!("HARNESS-ERROR no replay file"); return 2; } };
    let v: Value = match std::fs::read_to_string(&path).ok().and_then(|t| serde_json::from_str(&t).ok()) { Some(v) => v, None => { println!("HARNESS-ERROR cannot read {}", path); return 2; } };
    let cfg = match v.get("scenario").and_then(Cfg::from_json) { Some(c) => c, None => { println!("HARNESS-ERROR bad scenario"); return 2; } };
    let sched = v.get("schedule").and_then(|s| s.as_str()).unwrap_or("").to_string();
    println!("sdshuttle: replay property={} scenario={}", PROP, cfg.to_json());
    let mut config = Config::new();
    config.failure_persistence = FailurePersistence::None;
    config.silence_warnings = true;
    let cfg = Arc::new(cfg);
    let r = std::panic::catch_unwind(std::panic::AssertUnwindSafe(|| {
        let mut s = ReplayScheduler::new_from_encoded(&sched);
        s.set_allow_incomplete();
        Runner::new(s, config).run(scenario(cfg))
    }));
    let violated = VIOLATED.lock().ok().and_then(|g| g.clone());
    if let Some(msg) = violated {
        println!("violation: {}", msg);
        println!("VIOLATION property={} replay={}", PROP, path);
        return 1;
    }
    match r {
        Ok(_) => { println!("sdshuttle: replay ran clean: the recorded violation does not occur on this tree"); 0 },
        Err(e) => {
            // The schedule no longer fits the code (e.g. a different number of scheduling points).
            let msg = e.downcast_ref::<String>().cloned().or_else(|| e.downcast_ref::<&str>().map(|s| s.to_string())).unwrap_or_default();
            println!("sdshuttle: the recorded schedule does not fit this tree ({}); the recorded violation was not reproduced", msg);
            0
        },
    }
}
