#!/usr/bin/env python3
"""Writes MANIFEST.json (kept as a script so that the long texts stay readable)."""
import json, subprocess

def repo_commit(prefix):
    out = subprocess.run(["git", "-C", "/repo", "log", "--format=%h %s"], capture_output=True, text=True).stdout
    return [l.split()[0] for l in out.splitlines() if prefix in l]

hooks = repo_commit("(cfg simple_sds_verif")

checks = [
 ("C06", "streamsim", "exploration", "5 (C06)",
  "Seeded search over serialization round trips of every Serialize type (1-6 structures back to back, nested options, empty instances) through simulated streams that deliver short reads/writes and EINTR; exact byte ledger, reader-position, equality and query-battery oracles. The value space is sampled, so this is exploration.",
  "Trusts: the reference bytes come from the library's own serializer into an unbounded Vec<u8> (chunk independence is what is checked); queries compared are in-range only. Stub: the stream; real: all library code.",
  "deterministic simulation of Read/Write streams (seeded chunking + EINTR schedules), reference ledger oracle"),
 ("C12", "fssim", "exploration", "5 (C12)",
  "Seeded search over writer histories (kind, width 1-64, buffer size incl. 0 / sub-item / default 8 Mibit, parent header, bit/int/extend pushes, 0-3 closes, drop) on a simulated file system with short writes and EINTR; the file left behind must be byte-identical to the in-memory serialization; a sample is re-run on the real file system.",
  "Trusts SimFs (byte-vector files with POSIX write/seek semantics), cross-validated against the kernel on a sample; the oracle is the library's own in-memory RawVector/IntVector serialization, as the statement says.",
  "deterministic simulation of the file system behind the buffered writers (seeded short-write/EINTR schedules), reference-model comparison"),
 ("C13", "mapsim", "fault_enumeration", "5 (C13)",
  "For each sampled file of concatenated mappable structures: views at every structure offset (content, map_offset, tiling), at six offsets outside the file, and on EVERY 8-byte truncation of the file, against the real kernel in child processes (a crash is a violation). Fault points are enumerated exhaustively per file; files are sampled.",
  "Trusts the byte ledger computed from the library's serializer and Linux mmap semantics. Everything runs real code.",
  "fault injection by exhaustive file truncation (torn files) + out-of-range offsets, crash-isolating child processes"),
 ("C14", "streamsim+fssim+mapsim", "fault_enumeration", "5 (C14)",
  "For each sampled structure or writer history EVERY fault point is executed: EOF and read error at every byte for load and skip_option; write error and Ok(0) at every byte for serialize; every file-size limit, open, seek and write call for both writers; every 8-byte cut for mapped views. A failure must be reported (Err, documented panic on push, Err from close), never success on incomplete data, never a panic in load/serialize/close/drop, never a livelock (step cap).",
  "Relaxation after an injected failure is exactly: the operation may fail; once a writer reported failure its file content is unconstrained. Structures are sampled (sizes <= ~4 KiB so that enumeration is complete).",
  "exhaustive fault-point enumeration per structure over simulated streams / file system / torn mapped files"),
 ("C18", "mapsim", "exploration", "5 (C18)",
  "Seeded histories of map / read / write-through / drop over 1-3 real files (sizes around page boundaries, empty, odd, missing, sparse), several maps alive at once, mmap refusal injected through the hook; after every step /proc/self/maps must show exactly the live maps, content must equal the file, failures must be Err, mutations must be in the file after drop.",
  "Trusts /proc/self/maps as ground truth and 4 KiB pages; the only synthetic element is the injected MAP_FAILED.",
  "fault injection on mmap (refusal, empty/odd/missing files) with address-space observation after every step, in crash-isolating child processes"),
 ("C19", "streamsim", "exploration", "5 (C19)",
  "Seeded histories of enable_* / write / load / clone over bitvectors with every initial support subset, through simulated streams; foreign files for BitVector, SparseVector, WMCore, WaveletMatrix with support structures stripped; skip_option over arbitrary optionals between a prefix and a sentinel with exact reader-position checks.",
  "Answers are compared with the fully enabled original (differential), not with an independent rank/select model; the foreign composer follows SERIALIZATION.md's field order.",
  "deterministic simulation of Read/Write streams + history model of enabled supports + foreign-writer input"),
 ("C20", "shuttlesim", "exploration", "5 (C20)",
  "2-8 threads (plus the spawning thread) call temp_file_name under shuttle's seeded random scheduler (thorough: also PCT depth 1-3); all returned paths must be pairwise distinct and contain the caller's name part; a failing schedule is persisted and replayed exactly.",
  "shuttle models every atomic ordering as SeqCst; schedules are sampled, not enumerated.",
  "controlled thread scheduling (shuttle seeded random / PCT schedulers) with schedule replay"),
]

na = [
 ("C01", "pure function of (bits, query): no I/O seam, schedule, clock or fault on the path; deciding it needs bounded/property-based checking against a model, which is a different technique"),
 ("C02", "pure function of (universe, positions, query); nothing environmental to simulate"),
 ("C03", "pure function of (runs, query); the construction failures it mentions are input-dependent, not fault-dependent"),
 ("C04", "pure function of (vector, query); nothing environmental to simulate"),
 ("C05", "single-caller history on private memory: no second actor, no I/O, and allocation failure aborts; a seeded op-sequence against a Vec model would be model-based testing, not simulation"),
 ("C07", "both directions are pure functions bytes<->value; needs an independent codec written from SERIALIZATION.md (differential / translation validation), nothing for a scheduler or fault injector to decide"),
 ("C08", "quantifies over inputs, call sequences and build flags; the observable is a sanitizer/Miri report, not a schedule or fault; Miri cannot cross the mmap FFI"),
 ("C09", "pure function of extreme arguments"),
 ("C10", "an iterator is private to its caller; the 'interleaving' of next/next_back is a call order one caller picks, not a schedule between actors"),
 ("C11", "pure function of the bit sequence and conversion chain"),
 ("C15", "pure function of (universe, values, query)"),
 ("C16", "a rejected builder call is a caller error, not an environmental fault; single-caller in-memory history"),
 ("C17", "pure functions; BMI2 on/off is a compile-time configuration, not a run-time fault"),
]

manifest = {
 "version": 1,
 "setup_cmd": "./check setup",
 "hooks": {
   "guard": "simple_sds_verif (file/mmap seams, engines streamsim/fssim/mapsim) and simple_sds_verif_shuttle (atomic counter seam, engine shuttlesim)",
   "enable": "RUSTFLAGS='--cfg simple_sds_verif -C target-cpu=native' (sdsim) / '--cfg simple_sds_verif_shuttle -C target-cpu=native' (sdshuttle), through a shadow manifest in build/ whose [lib] path is /repo/src/lib.rs; /repo/Cargo.toml and Cargo.lock are not used by the checks",
   "baseline_off_cmd": "cd /repo && cargo test --workspace --no-fail-fast --offline",
   "source_commits": hooks,
   "add_only": True,
 },
 "engines": [
   {"name": "streamsim", "path": "sim/src/engines/stream.rs", "serves_properties": ["C06", "C14", "C19"], "kind_free_text": "simulated Read/Write streams: seeded chunking, EINTR, EOF, errors, Ok(0)"},
   {"name": "fssim", "path": "sim/src/engines/fs.rs", "serves_properties": ["C12", "C14"], "kind_free_text": "simulated file system behind the verif_io seam: short writes, EINTR, open/seek/write failures, file-size limit"},
   {"name": "mapsim", "path": "sim/src/engines/map.rs", "serves_properties": ["C13", "C14", "C18"], "kind_free_text": "real kernel mmap in crash-isolating child processes: torn files, bad offsets, mmap refusal, /proc/self/maps observation"},
   {"name": "shuttlesim", "path": "sim-shuttle/src/main.rs", "serves_properties": ["C20"], "kind_free_text": "shuttle-controlled thread schedules over the temp-file counter"},
 ],
 "checks": [
   {"property_id": pid, "quick_cmd": f"./check {pid} --tier quick", "thorough_cmd": f"./check {pid} --tier thorough",
    "evidence_file": f"/verif/evidence/{pid}.json", "replay_cmd_template": f"./check {pid} --replay {{path}}", "engine": eng,
    "level_claimed": {"category": cat, "text": text, "design_ref": ref}, "level_note": note, "technique": tech}
   for (pid, eng, cat, ref, text, note, tech) in checks
 ],
 "not_applicable": [{"property_id": p, "reason": r} for p, r in na],
 "notes": "Technique family: deterministic simulation with fault injection. Seven properties have an environment surface (streams, files, mmap, one atomic) and are claimed; thirteen are pure functions or single-caller histories and are listed under not_applicable (DESIGN.md section 3). known_findings.txt holds four 'fixed:' entries (repaired by fix: commits in /repo) and no open entry.",
}
json.dump(manifest, open("/verif/MANIFEST.json", "w"), indent=1)
print("MANIFEST.json written; hook commits:", hooks)
