#!/usr/bin/env bash
# Confirms a seeded change independently of whoever wrote it:
#   1. patch.diff applies to a scratch worktree of /repo (outside /repo and /verif),
#   2. the crate compiles and the repository's own test suite passes with it,
#   3. demo.rs (dropped into tests/) FAILS with the change,
#   4. demo.rs PASSES on the unchanged tree.
# Prints one line per step and exits 0 iff all four hold. The worktree and its build output are removed.
#
#   selfcheck/confirm_seed.sh seeded/<id>

set -u
DIR="$(cd "$1" && pwd)"
WT="${SEED_WORKTREE:-/tmp/sdsim-seed-wt}"
TARGET="${SEED_TARGET:-/tmp/sdsim-seed-target}"
cleanup() { git -C /repo worktree remove --force "$WT" >/dev/null 2>&1; rm -rf "$WT" "$TARGET"; git -C /repo worktree prune >/dev/null 2>&1; }
trap cleanup EXIT
cleanup
git -C /repo worktree add -q --detach "$WT" HEAD || { echo "cannot create worktree"; exit 2; }
export CARGO_NET_OFFLINE=true
ok=1
cd "$WT" || exit 2
if git apply "$DIR/patch.diff" 2>/dev/null; then echo "apply: ok"; else echo "apply: FAILED"; exit 1; fi
if git diff --name-only | grep -qv '^src/'; then echo "scope: FAILED (touches files outside src/)"; ok=0; else echo "scope: ok (src/ only)"; fi
if cargo test --offline --quiet --target-dir "$TARGET" >"$TARGET.suite.log" 2>&1; then echo "suite-with-change: pass ($(grep -c 'test result: ok' "$TARGET.suite.log") result lines ok)"; else echo "suite-with-change: FAIL"; ok=0; fi
mkdir -p tests && cp "$DIR/demo.rs" tests/seed_demo.rs
# (stdout goes through a pipe: a demo may lower RLIMIT_FSIZE for a child that inherits stdout)
run_demo() { cargo test --offline --quiet --target-dir "$TARGET" --test seed_demo 2>&1 | cat > "$1"; return "${PIPESTATUS[0]}"; }
if run_demo "$TARGET.demo1.log"; then echo "demo-with-change: passes (expected failure) -> NOT a demonstration"; ok=0; else
    if grep -q "error\[E\|could not compile" "$TARGET.demo1.log"; then echo "demo-with-change: does not compile"; ok=0; else echo "demo-with-change: fails as required"; fi
fi
git checkout -q -- src
if run_demo "$TARGET.demo2.log"; then echo "demo-without-change: passes as required"; else echo "demo-without-change: FAILS"; ok=0; fi
rm -f "$TARGET".*.log
[ $ok -eq 1 ] && echo "confirmed: yes" || echo "confirmed: NO"
[ $ok -eq 1 ]
