#!/usr/bin/env bash
# False-alarm self-check: every patch under selfcheck/benign/<id>/patch.diff is a change that PRESERVES the
# properties (a behaviour-preserving refactoring written by an independent sub-agent that saw only the
# property text, or by hand). Each is applied to a scratch worktree of /repo outside /repo and /verif, the
# repository's own suite must still pass, and then EVERY quick check must exit 0 with no VIOLATION line.
# A check that raises an alarm on one of these is wrong (or the patch is not benign after all - then the
# replay file says why, and the patch moves to seeded/).
#
#   selfcheck/benign.sh [--no-tests] [name-substring ...]

set -u
ROOT="$(cd "$(dirname "${BASH_SOURCE[0]}")/.." && pwd)"
WT="${BEN_WORKTREE:-/tmp/sdsim-ben-wt}"
BUILD="${BEN_BUILD:-/tmp/sdsim-ben-build}"
OUT="${BEN_OUT:-/tmp/sdsim-ben-out}"
RUN_TESTS=1
FILTERS=()
while [ $# -gt 0 ]; do
    case "$1" in
        --no-tests) RUN_TESTS=0; shift ;;
        *) FILTERS+=("$1"); shift ;;
    esac
done
cleanup() {
    git -C /repo worktree remove --force "$WT" >/dev/null 2>&1
    if [ -n "${BEN_KEEP:-}" ]; then rm -rf "$WT" "$BUILD"; else rm -rf "$WT" "$BUILD" "$OUT"; fi
    git -C /repo worktree prune >/dev/null 2>&1
}
# One run per scratch location: a second one would pull the worktree from under the first.
LOCK="$WT.pid"
if [ -f "$LOCK" ] && kill -0 "$(cat "$LOCK" 2>/dev/null)" 2>/dev/null; then echo "another run (pid $(cat "$LOCK")) is using $WT - set BEN_WORKTREE / _BUILD / _OUT to other paths"; exit 2; fi
echo $$ > "$LOCK"
trap 'cleanup; rm -f "$LOCK"' EXIT
cleanup
git -C /repo worktree add -q --detach "$WT" HEAD || { echo "cannot create worktree"; exit 2; }
mkdir -p "$OUT"
alarms=0; clean=0; invalid=0
printf "%-44s %-7s %s\n" "benign change" "tests" "checks (exit codes C06 C12 C13 C14 C18 C19 C20)"
for patch in "$ROOT"/selfcheck/benign/*/patch.diff; do
    [ -f "$patch" ] || continue
    name="$(basename "$(dirname "$patch")")"
    if [ ${#FILTERS[@]} -gt 0 ]; then
        keep=0; for s in "${FILTERS[@]}"; do case "$name" in *"$s"*) keep=1 ;; esac; done
        [ $keep -eq 1 ] || continue
    fi
    git -C "$WT" checkout -q -- . && git -C "$WT" clean -qfd
    if ! git -C "$WT" apply "$patch" 2>/dev/null; then printf "%-44s %s\n" "$name" "PATCH DOES NOT APPLY"; invalid=$((invalid+1)); continue; fi
    tests="skipped"
    if [ $RUN_TESTS -eq 1 ]; then
        if ( cd "$WT" && CARGO_NET_OFFLINE=true cargo test --offline --quiet --target-dir "$BUILD/repo-target" >/dev/null 2>&1 ); then tests="pass"; else tests="FAIL"; fi
    fi
    codes=""; bad=0
    for prop in C06 C12 C13 C14 C18 C19 C20; do
        log="$OUT/$name-$prop.log"
        VERIF_REPO="$WT" VERIF_BUILD="$BUILD" VERIF_OUT="$OUT/$name" "$ROOT/check" "$prop" > "$log" 2>&1
        code=$?
        codes="$codes $code"
        if [ $code -ne 0 ] || grep -q '^VIOLATION' "$log"; then bad=1; grep -m2 '^violation:\|^HARNESS-ERROR\|^  ' "$log" | cut -c1-260 | sed "s/^/      [$prop] /"; fi
    done
    if [ "$tests" = "FAIL" ]; then verdict="INVALID (suite fails)"; invalid=$((invalid+1))
    elif [ $bad -eq 1 ]; then verdict="ALARM"; alarms=$((alarms+1))
    else verdict="quiet"; clean=$((clean+1)); fi
    printf "%-44s %-7s%s  %s\n" "$name" "$tests" "$codes" "$verdict"
done
# C20-c3 probes the file system once per name: ~10^8 negative dentries stay behind and slow every later process start.
( sync; echo 2 > /proc/sys/vm/drop_caches ) 2>/dev/null || true
echo "benign: quiet=$clean alarms=$alarms invalid=$invalid"
[ $alarms -eq 0 ] && [ $invalid -eq 0 ]
