#!/usr/bin/env bash
# Sensitivity self-check: every mutant patch under selfcheck/mutants (and every kept change under
# seeded/) is applied to a scratch worktree of /repo OUTSIDE /repo and /verif, the repository's own
# test suite is confirmed to still pass, and the quick check of the property it breaks must exit 1
# with a VIOLATION line whose replay file reproduces in a fresh process. The scratch worktree and
# its build output are removed at the end. Nothing under /verif/evidence is touched.
#
#   selfcheck/sensitivity.sh [--no-tests] [--tier quick|thorough] [name-substring ...]
#
# A seeded change may name the property whose check is expected to catch it with "check_property" in
# its meta.json when that differs from the property its author aimed at.
#
# Exit 0 iff every selected mutant was caught.

set -u
ROOT="$(cd "$(dirname "${BASH_SOURCE[0]}")/.." && pwd)"
WT="${SENS_WORKTREE:-/tmp/sdsim-sens-wt}"
BUILD="${SENS_BUILD:-/tmp/sdsim-sens-build}"
OUT="${SENS_OUT:-/tmp/sdsim-sens-out}"
RUN_TESTS=1
TIER=quick
FILTERS=()
while [ $# -gt 0 ]; do
    case "$1" in
        --no-tests) RUN_TESTS=0; shift ;;
        --tier) TIER="$2"; shift 2 ;;
        *) FILTERS+=("$1"); shift ;;
    esac
done

cleanup() {
    git -C /repo worktree remove --force "$WT" >/dev/null 2>&1
    if [ -n "${SENS_KEEP:-}" ]; then rm -rf "$WT" "$BUILD"; else rm -rf "$WT" "$BUILD" "$OUT"; fi
    git -C /repo worktree prune >/dev/null 2>&1
}
# One run per scratch location: a second one would pull the worktree from under the first.
LOCK="$WT.pid"
if [ -f "$LOCK" ] && kill -0 "$(cat "$LOCK" 2>/dev/null)" 2>/dev/null; then echo "another run (pid $(cat "$LOCK")) is using $WT - set SENS_WORKTREE / _BUILD / _OUT to other paths"; exit 2; fi
echo $$ > "$LOCK"
trap 'cleanup; rm -f "$LOCK"' EXIT
cleanup
git -C /repo worktree add -q --detach "$WT" HEAD || { echo "cannot create worktree"; exit 2; }
mkdir -p "$OUT"
# One minimised report per change is enough here, and shrinking may stop early (the checks' own defaults are 6 and 180 s).
export VERIF_TRIAGE_MAX="${VERIF_TRIAGE_MAX:-1}" VERIF_TRIAGE_SECS="${VERIF_TRIAGE_SECS:-30}"

declare -a PATCHES=()
for f in "$ROOT"/selfcheck/mutants/*.patch "$ROOT"/seeded/*/patch.diff; do
    [ -f "$f" ] || continue
    if [ ${#FILTERS[@]} -gt 0 ]; then
        keep=0; for s in "${FILTERS[@]}"; do case "$f" in *"$s"*) keep=1 ;; esac; done
        [ $keep -eq 1 ] || continue
    fi
    PATCHES+=("$f")
done

caught=0; missed=0; broken=0
printf "%-58s %-5s %-7s %-8s %s\n" "change" "prop" "tests" "check" "replay"
for patch in "${PATCHES[@]}"; do
    case "$patch" in
        */seeded/*) name="seeded/$(basename "$(dirname "$patch")")"; prop="$(python3 -c "import json,sys; m=json.load(open(sys.argv[1])); print(m.get('check_property', m['property']))" "$(dirname "$patch")/meta.json" 2>/dev/null)" ;;
        *) name="$(basename "$patch" .patch)"; prop="$(grep -o 'property=C[0-9]*' "${patch%.patch}.meta" | head -1 | cut -d= -f2)" ;;
    esac
    git -C "$WT" checkout -q -- . && git -C "$WT" clean -qfd
    if ! git -C "$WT" apply "$patch" 2>/dev/null; then
        printf "%-58s %-5s %s\n" "$name" "$prop" "PATCH DOES NOT APPLY"; broken=$((broken+1)); continue
    fi
    tests="skipped"
    if [ $RUN_TESTS -eq 1 ]; then
        if ( cd "$WT" && CARGO_NET_OFFLINE=true cargo test --offline --quiet --target-dir "$BUILD/repo-target" >/dev/null 2>&1 ); then tests="pass"; else tests="FAIL"; fi
    fi
    log="$OUT/$(echo "$name" | tr '/' '_').log"
    VERIF_REPO="$WT" VERIF_BUILD="$BUILD" VERIF_OUT="$OUT" "$ROOT/check" "$prop" --tier "$TIER" > "$log" 2>&1
    code=$?
    replay_path="$(grep -m1 '^VIOLATION property=' "$log" | sed 's/.*replay=//')"
    rstat="-"
    if [ $code -eq 1 ] && [ -n "$replay_path" ]; then
        VERIF_REPO="$WT" VERIF_BUILD="$BUILD" VERIF_OUT="$OUT" "$ROOT/check" "$prop" --replay "$replay_path" > "$log.replay" 2>&1
        [ $? -eq 1 ] && rstat="reproduces" || rstat="NOT-REPRODUCED"
    fi
    if [ $code -eq 1 ] && [ "$rstat" = "reproduces" ] && [ "$tests" != "FAIL" ]; then verdict="caught"; caught=$((caught+1))
    elif [ "$tests" = "FAIL" ]; then verdict="exit=$code (tests fail: not a valid mutant)"; broken=$((broken+1))
    else verdict="MISSED(exit=$code)"; missed=$((missed+1)); fi
    clause="$(grep -m1 '^violation:' "$log" | sed 's/.*clause=\([^ ]*\).*/\1/')"
    printf "%-58s %-5s %-7s %-8s %s %s\n" "$name" "$prop" "$tests" "$verdict" "$rstat" "$clause"
done
echo "sensitivity: caught=$caught missed=$missed invalid=$broken"
[ $missed -eq 0 ] && [ $broken -eq 0 ]
