#!/usr/bin/env bash
# Zero-alarm self-check: every quick check must exit 0, print no VIOLATION and no HARNESS-ERROR line on
# the unchanged tree, for the default seed and for N further VERIF_SEED values. Evidence and replays go
# to a scratch directory.
#
#   selfcheck/zero_alarm.sh [--seeds N] [--tier quick|thorough]

set -u
ROOT="$(cd "$(dirname "${BASH_SOURCE[0]}")/.." && pwd)"
OUT="${ZERO_OUT:-/tmp/sdsim-zero-out}"
SEEDS=20
TIER=quick
while [ $# -gt 0 ]; do
    case "$1" in
        --seeds) SEEDS="$2"; shift 2 ;;
        --tier) TIER="$2"; shift 2 ;;
        *) echo "unknown option $1"; exit 2 ;;
    esac
done
rm -rf "$OUT"; mkdir -p "$OUT"
trap 'rm -rf "$OUT"' EXIT
"$ROOT/check" setup >/dev/null || exit 2
bad=0; runs=0
for s in default $(seq 1 "$SEEDS"); do
    for prop in C06 C12 C13 C14 C18 C19 C20; do
        log="$OUT/$prop-$s.log"
        if [ "$s" = default ]; then VERIF_OUT="$OUT" "$ROOT/check" "$prop" --tier "$TIER" > "$log" 2>&1; else VERIF_SEED=$((s * 104729 + 11)) VERIF_OUT="$OUT" "$ROOT/check" "$prop" --tier "$TIER" > "$log" 2>&1; fi
        code=$?
        runs=$((runs+1))
        if [ $code -ne 0 ] || grep -q '^VIOLATION\|^HARNESS-ERROR\|^KNOWN-FINDING' "$log"; then
            echo "ALARM prop=$prop seed=$s exit=$code"; grep '^VIOLATION\|^HARNESS-ERROR\|^violation' "$log" | head -3; bad=$((bad+1))
            cp "$log" "/tmp/zero-alarm-$prop-$s.log" 2>/dev/null
        fi
    done
done
echo "zero-alarm: $runs runs ($TIER tier), alarms=$bad"
[ $bad -eq 0 ]
