#!/usr/bin/env python3
"""Copies one change delivered by a seeding sub-agent into /verif/seeded/<id>/ and writes its meta.json.

  selfcheck/import_seed.py <agent-outdir> <n> <id> <round> "<what it needs to manifest>" [check_property "<reason>"]

The change still has to be confirmed with selfcheck/confirm_seed.sh and tried with selfcheck/sensitivity.sh;
`caught_by` / `caught_as` are added to meta.json afterwards.
"""
import json, os, shutil, sys
out, n, ident, rnd, needs = sys.argv[1:6]
d = f"/verif/seeded/{ident}"
os.makedirs(d, exist_ok=True)
shutil.copy(f"{out}/change{n}.diff", f"{d}/patch.diff")
shutil.copy(f"{out}/demo{n}.rs", f"{d}/demo.rs")
if os.path.exists(f"{out}/notes{n}.md"): shutil.copy(f"{out}/notes{n}.md", f"{d}/notes.md")
meta = {"id": ident, "property": ident.split('-')[0],
        "origin": f"round {rnd}: written by an independent sub-agent that was given only the property text and a scratch worktree (nothing from /verif)",
        "needs_to_manifest": needs,
        "confirmed_by": f"selfcheck/confirm_seed.sh seeded/{ident}",
        "checked_with": f"selfcheck/sensitivity.sh {ident}"}
if len(sys.argv) > 7:
    meta["check_property"] = sys.argv[6]; meta["check_property_reason"] = sys.argv[7]
json.dump(meta, open(f"{d}/meta.json", "w"), indent=1)
print("imported", ident)
