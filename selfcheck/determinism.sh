#!/usr/bin/env bash
# Determinism self-check: one integer decides everything.
#
# For every engine-backed property and a list of VERIF_SEED values, the same batch is executed in
# fresh processes at worker counts 1, 4 and 16, twice each, and the event logs (per scenario index:
# hash of the expanded scenario, hash of the complete outcome = verdict + all statistics + I/O
# signatures) must be byte-identical. Addresses, times and PIDs never enter an outcome.
#
#   selfcheck/determinism.sh [--seeds N] [--count N]
#
# Evidence and replays go to a scratch directory, not to /verif/evidence.

set -u
ROOT="$(cd "$(dirname "${BASH_SOURCE[0]}")/.." && pwd)"
OUT="${DET_OUT:-/tmp/sdsim-det-out}"
SEEDS=8
COUNT=250
while [ $# -gt 0 ]; do
    case "$1" in
        --seeds) SEEDS="$2"; shift 2 ;;
        --count) COUNT="$2"; shift 2 ;;
        *) echo "unknown option $1"; exit 2 ;;
    esac
done
rm -rf "$OUT"; mkdir -p "$OUT"
trap 'rm -rf "$OUT"' EXIT
"$ROOT/check" setup >/dev/null || exit 2

fail=0; compared=0
for prop in C06 C12 C13 C14 C18 C19 C20; do
    for s in $(seq 1 "$SEEDS"); do
        seed=$((s * 7919 + 20261004))
        ref=""
        for jobs in 1 4 16; do
            for rep in a b; do
                log="$OUT/$prop-$seed-$jobs-$rep.log"
                VERIF_SEED=$seed VERIF_OUT="$OUT/o-$prop-$jobs-$rep" "$ROOT/check" "$prop" --count "$COUNT" --jobs "$jobs" --log "$log" > "$log.stdout" 2>&1
                code=$?
                if [ $code -ne 0 ]; then echo "NONZERO prop=$prop seed=$seed jobs=$jobs rep=$rep exit=$code"; tail -3 "$log.stdout"; fail=$((fail+1)); fi
                if [ -z "$ref" ]; then ref="$log"; else
                    compared=$((compared+1))
                    if ! cmp -s "$ref" "$log"; then echo "DIVERGED prop=$prop seed=$seed: $ref vs $log"; diff "$ref" "$log" | head -5; fail=$((fail+1)); fi
                fi
            done
        done
    done
    echo "determinism: $prop ok so far (failures=$fail)"
done
lines=$(cat "$OUT"/*-1-a.log 2>/dev/null | wc -l)
echo "determinism: $compared log comparisons over $lines scenario executions per configuration, failures=$fail"
[ $fail -eq 0 ]
