//! Compact, seed-free descriptions of payload contents.
//!
//! A `Content` is pure data (length, pattern, salt). Expanding it never touches the scenario PRNG,
//! so a replay file stays small and stays valid even if the generators change.

use serde::{Deserialize, Serialize};

use crate::rng::{splitmix, Rng};

#[derive(Clone, Copy, Debug, Serialize, Deserialize, PartialEq, Eq)]
pub enum Pat {
    /// All bits clear.
    Zero,
    /// All bits set.
    Ones,
    /// Uniformly random words.
    Random,
    /// Word i holds i (and its bit-reversal every other word).
    Counter,
    /// Each bit set with probability x / 1000.
    Density(u16),
    /// Alternating runs of set / unset bits with lengths up to x.
    Runs(u32),
    /// Only the first and the last bit set.
    Ends,
    /// Exactly one bit set (in the middle).
    Single,
    /// Exactly one bit clear (in the middle).
    AllButOne,
    /// Bit i is set iff i is a multiple of x (cheap to expand at any length).
    Every(u32),
    /// Clustered: periods of 65536 set bits followed by 4096 * x bits of which every x-th is set (so that, in
    /// select support, sixteen short superblocks alternate with one long one); with `true` the complement.
    Clustered(u32, bool),
}

#[derive(Clone, Debug, Serialize, Deserialize, PartialEq, Eq)]
pub struct Content {
    pub len: usize,
    pub pat: Pat,
    pub salt: u64,
}

impl Content {
    pub fn new(len: usize, pat: Pat, salt: u64) -> Content {
        Content { len, pat, salt }
    }

    /// `n` words following the pattern.
    pub fn words_n(&self, n: usize) -> Vec<u64> {
        let mut out = Vec::with_capacity(n);
        match self.pat {
            Pat::Zero => out.resize(n, 0),
            Pat::Ones => out.resize(n, u64::MAX),
            Pat::Random => {
                let mut st = self.salt ^ 0xA5A5_5A5A_1234_5678;
                for _ in 0..n { out.push(splitmix(&mut st)); }
            },
            Pat::Counter => {
                for i in 0..n {
                    let v = (i as u64).wrapping_add(self.salt & 0xFF);
                    out.push(if i & 1 == 0 { v } else { v.reverse_bits() });
                }
            },
            Pat::Density(d) => {
                let mut rng = Rng::new(self.salt ^ 0x0D15_EA5E);
                for _ in 0..n {
                    let mut w = 0u64;
                    if d >= 1000 { w = u64::MAX; }
                    else if d > 0 {
                        for b in 0..64 {
                            if rng.below(1000) < d as u64 { w |= 1u64 << b; }
                        }
                    }
                    out.push(w);
                }
            },
            Pat::Runs(maxlen) => {
                let mut rng = Rng::new(self.salt ^ 0x5EED_0F00);
                let total = n * 64;
                out.resize(n, 0);
                let mut pos = 0usize;
                let mut value = rng.bool();
                while pos < total {
                    let l = 1 + rng.below(maxlen.max(1) as u64) as usize;
                    let end = (pos + l).min(total);
                    if value {
                        for p in pos..end { out[p / 64] |= 1u64 << (p % 64); }
                    }
                    pos = end;
                    value = !value;
                }
            },
            Pat::Ends | Pat::Single => {
                out.resize(n, 0);
            },
            Pat::AllButOne => out.resize(n, u64::MAX),
            Pat::Every(k) => {
                let k = k.max(1) as usize;
                out.resize(n, 0);
                if k >= 64 { let mut p = 0usize; while p < n * 64 { out[p / 64] |= 1u64 << (p % 64); p += k; } }
                else { for p in (0..n * 64).step_by(k) { out[p / 64] |= 1u64 << (p % 64); } }
            },
            Pat::Clustered(k, invert) => {
                let k = (k.max(1) as usize + 63) / 64 * 64;
                let period = 65536 + 4096 * k;
                out.resize(n, 0);
                for i in 0..n {
                    let p = (i * 64) % period;
                    out[i] = if p < 65536 { u64::MAX } else if (p - 65536) % k == 0 { 1 } else { 0 };
                    if invert { out[i] = !out[i]; }
                }
            },
        }
        out
    }

    /// `self.len` words.
    pub fn words(&self) -> Vec<u64> {
        self.words_n(self.len)
    }

    /// `self.len` bits packed into words; the unused tail of the last word is zero.
    pub fn bit_words(&self) -> Vec<u64> {
        let n = (self.len + 63) / 64;
        let mut w = self.words_n(n);
        if let Pat::Ends = self.pat {
            if self.len > 0 {
                w[0] |= 1;
                let last = self.len - 1;
                w[last / 64] |= 1u64 << (last % 64);
            }
        }
        if self.len > 0 {
            let mid = self.len / 2;
            match self.pat { Pat::Single => w[mid / 64] |= 1u64 << (mid % 64), Pat::AllButOne => w[mid / 64] &= !(1u64 << (mid % 64)), _ => {} }
        }
        if self.len % 64 != 0 {
            w[n - 1] &= (1u64 << (self.len % 64)) - 1;
        }
        w
    }

    pub fn bits(&self) -> Vec<bool> {
        let w = self.bit_words();
        (0..self.len).map(|i| (w[i / 64] >> (i % 64)) & 1 == 1).collect()
    }

    /// Positions of set bits among `self.len` bits.
    pub fn positions(&self) -> Vec<usize> {
        let w = self.bit_words();
        let mut out = Vec::new();
        for (i, word) in w.iter().enumerate() {
            let mut x = *word;
            while x != 0 {
                let b = x.trailing_zeros() as usize;
                out.push(i * 64 + b);
                x &= x - 1;
            }
        }
        out
    }

    /// `self.len` bytes.
    pub fn bytes(&self) -> Vec<u8> {
        let w = self.words_n((self.len + 7) / 8);
        let mut out = Vec::with_capacity(self.len);
        for i in 0..self.len {
            out.push((w[i / 8] >> (8 * (i % 8))) as u8);
        }
        out
    }

    /// A string whose UTF-8 encoding has exactly `self.len` bytes where possible
    /// (mixes 1-4 byte characters; pads with ASCII).
    pub fn string(&self) -> String {
        const TABLE: [&str; 12] = ["a", "Z", "0", " ", "é", "ß", "Ж", "€", "中", "\u{1F600}", "\u{10348}", "\n"];
        let w = self.words_n((self.len + 7) / 8 + 1);
        let mut s = String::with_capacity(self.len);
        let mut i = 0usize;
        // Strings that reach 2^25 bytes (where piecewise loaders and validators start a new piece) carry a
        // four-byte character across every multiple of 2^25: one byte before it, three after.
        const PIECE: usize = 1 << 25;
        while s.len() < self.len {
            if self.len > PIECE {
                let next = (s.len() / PIECE + 1) * PIECE;
                if next + 3 <= self.len && s.len() + 8 >= next {
                    while s.len() + 1 < next { s.push('x'); }
                    if s.len() + 1 == next { s.push_str("\u{1F600}"); i += 1; continue; }
                }
            }
            let pick = match self.pat {
                Pat::Zero => 0,
                Pat::Ones => 9,
                _ => ((w[(i / 8) % w.len()] >> (8 * (i % 8))) as usize) % TABLE.len(),
            };
            let c = TABLE[pick];
            if s.len() + c.len() <= self.len { s.push_str(c); } else { s.push('x'); }
            i += 1;
        }
        s
    }

    pub fn generate(rng: &mut Rng, len: usize) -> Content {
        let pat = match rng.below(12) {
            0 => Pat::Zero,
            1 => Pat::Ones,
            2 | 3 | 4 => Pat::Random,
            5 => Pat::Counter,
            6 => Pat::Density(*rng.pick(&[1u16, 5, 20, 100, 500, 900, 990, 999])),
            7 => Pat::Density(rng.range(1, 999) as u16),
            8 => Pat::Runs(*rng.pick(&[1u32, 2, 7, 8, 50, 600, 5000])),
            9 => *rng.pick(&[Pat::Ends, Pat::Ends, Pat::Single, Pat::AllButOne]),
            _ => Pat::Random,
        };
        Content { len, pat, salt: rng.next() & 0xFFFF_FFFF }
    }

    /// Strictly simpler variants, most aggressive first (for the shrinker).
    pub fn simpler(&self) -> Vec<Content> {
        let mut out = Vec::new();
        if self.len > 0 {
            out.push(Content { len: 0, ..self.clone() });
            if self.len > 1 { out.push(Content { len: self.len / 2, ..self.clone() }); }
            out.push(Content { len: self.len - 1, ..self.clone() });
        }
        if self.pat != Pat::Zero {
            out.push(Content { pat: Pat::Zero, ..self.clone() });
            if self.pat != Pat::Ones { out.push(Content { pat: Pat::Ones, ..self.clone() }); }
        }
        if self.salt != 0 {
            out.push(Content { salt: 0, ..self.clone() });
        }
        out
    }
}

/// Lengths that sit on and around the boundaries the code cares about.
pub fn gen_len(rng: &mut Rng, unit_max: usize) -> usize {
    const EDGE: [usize; 24] = [0, 0, 1, 1, 2, 7, 8, 9, 63, 64, 65, 127, 128, 129, 511, 512, 513, 1023, 1025, 4095, 4096, 4097, 8191, 8193];
    let l = match rng.below(10) {
        0..=4 => *rng.pick(&EDGE),
        5 | 6 => rng.range_usize(0, 200),
        7 | 8 => rng.range_usize(0, 3000),
        _ => rng.range_usize(0, unit_max),
    };
    l.min(unit_max)
}
