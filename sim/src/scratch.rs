//! Scratch files for the engines that need the real kernel. One directory per process.

use std::path::PathBuf;
use std::sync::atomic::{AtomicU64, Ordering};

static COUNTER: AtomicU64 = AtomicU64::new(0);

pub fn root() -> PathBuf {
    match std::env::var_os("VERIF_SCRATCH") {
        Some(p) => PathBuf::from(p),
        None => std::env::temp_dir().join("sdsim-scratch"),
    }
}

pub fn dir_of(pid: u32) -> PathBuf {
    root().join(format!("p{}", pid))
}

pub fn dir() -> PathBuf {
    // Created once per process: scenario paths are handed out millions of times.
    static DIR: std::sync::OnceLock<PathBuf> = std::sync::OnceLock::new();
    DIR.get_or_init(|| {
        let d = dir_of(std::process::id());
        let _ = std::fs::create_dir_all(&d);
        d
    }).clone()
}

/// A fresh file name inside this process's scratch directory. The counter only makes names
/// unique; it never influences a decision.
pub fn file(tag: &str) -> PathBuf {
    let n = COUNTER.fetch_add(1, Ordering::Relaxed);
    dir().join(format!("{}-{}", tag, n))
}

pub fn cleanup_pid(pid: u32) {
    let _ = std::fs::remove_dir_all(dir_of(pid));
}

pub fn cleanup() {
    cleanup_pid(std::process::id());
}
