//! The closed set of scenario types, with dispatch for running, shrinking and generation.

use serde::{Deserialize, Serialize};

use crate::core::{catch, Outcome, Violation};
use crate::engines::fs::Writer;
use crate::engines::map::{MapLife, MapViews};
use crate::engines::names::NameVolume;
use crate::engines::stream::{FileFault, Foreign, Points, RoundTrip, Skip, StreamFault, Supports};
use crate::rng::Rng;

#[derive(Clone, Debug, Serialize, Deserialize)]
pub enum Scenario {
    RoundTrip(RoundTrip),
    StreamFault(StreamFault),
    FileFault(FileFault),
    Supports(Supports),
    Foreign(Foreign),
    Skip(Skip),
    Writer(Writer),
    MapViews(MapViews),
    MapLife(MapLife),
    NameVolume(NameVolume),
}

#[derive(Clone, Copy, Debug, PartialEq, Eq)]
pub enum Tier {
    Quick,
    Thorough,
}

impl Scenario {
    /// Runs the scenario in this process. A panic that escapes the engine is a harness defect.
    pub fn run(&self, prop: &str) -> Outcome {
        let r = catch(|| match self {
            Scenario::RoundTrip(s) => s.run(prop),
            Scenario::StreamFault(s) => s.run(prop),
            Scenario::FileFault(s) => s.run(prop),
            Scenario::Supports(s) => s.run(prop),
            Scenario::Foreign(s) => s.run(prop),
            Scenario::Skip(s) => s.run(prop),
            Scenario::Writer(s) => s.run(prop),
            Scenario::MapViews(s) => s.run(prop),
            Scenario::MapLife(s) => s.run(prop),
            Scenario::NameVolume(s) => s.run(prop),
        });
        match r {
            Ok(mut o) => {
                // A panic raised inside the simulator's own sources is a defect of the harness, whatever clause caught it.
                if let Some(v) = o.violation.as_mut() {
                    if v.message.contains("/sim/src/") && v.message.contains(" at ") && (v.clause.contains("panic") || v.message.contains("panicked")) {
                        v.site = format!("{} (was clause {})", v.site, v.clause);
                        v.clause = "harness".to_string();
                    }
                }
                o
            },
            Err(p) => Outcome::default().fail(Violation::new(prop, "harness", "engine-panic", p)),
        }
    }

    /// Scenarios that touch the real kernel mapping calls run in a child process, so that a
    /// crash (SIGSEGV / SIGBUS / abort) is an observation instead of the end of the run.
    pub fn needs_child(&self) -> bool {
        matches!(self, Scenario::MapViews(_) | Scenario::MapLife(_)) || matches!(self, Scenario::Writer(w) if w.needs_child())
    }

    pub fn simpler(&self) -> Vec<Scenario> {
        match self {
            Scenario::RoundTrip(s) => s.simpler().into_iter().map(Scenario::RoundTrip).collect(),
            Scenario::StreamFault(s) => s.simpler().into_iter().map(Scenario::StreamFault).collect(),
            Scenario::FileFault(s) => s.simpler().into_iter().map(Scenario::FileFault).collect(),
            Scenario::Supports(s) => s.simpler().into_iter().map(Scenario::Supports).collect(),
            Scenario::Foreign(s) => s.simpler().into_iter().map(Scenario::Foreign).collect(),
            Scenario::Skip(s) => s.simpler().into_iter().map(Scenario::Skip).collect(),
            Scenario::Writer(s) => s.simpler().into_iter().map(Scenario::Writer).collect(),
            Scenario::MapViews(s) => s.simpler().into_iter().map(Scenario::MapViews).collect(),
            Scenario::MapLife(s) => s.simpler().into_iter().map(Scenario::MapLife).collect(),
            Scenario::NameVolume(s) => s.simpler().into_iter().map(Scenario::NameVolume).collect(),
        }
    }

    /// Candidates that replace "every fault point" by a single one, in order; the first one that
    /// still fails is kept, so that the replay file names the fault point.
    pub fn narrow_candidates(&self, prop: &str) -> Vec<Scenario> {
        match self {
            Scenario::StreamFault(s) if s.points == Points::All || s.points == Points::Sample => {
                match s.first_failing_point(prop) {
                    Some(k) => { let mut n = s.clone(); n.points = Points::One(k); vec![Scenario::StreamFault(n)] },
                    None => vec![],
                }
            },
            Scenario::FileFault(f) => f.narrow_candidates().into_iter().map(Scenario::FileFault).collect(),
            Scenario::Writer(w) => w.narrow_candidates(prop).into_iter().map(Scenario::Writer).collect(),
            Scenario::MapViews(m) => m.narrow_candidates().into_iter().map(Scenario::MapViews).collect(),
            _ => vec![],
        }
    }

    pub fn kind(&self) -> &'static str {
        match self {
            Scenario::RoundTrip(_) => "RoundTrip",
            Scenario::StreamFault(_) => "StreamFault",
            Scenario::FileFault(_) => "FileFault",
            Scenario::Supports(_) => "Supports",
            Scenario::Foreign(_) => "Foreign",
            Scenario::Skip(_) => "Skip",
            Scenario::Writer(_) => "Writer",
            Scenario::MapViews(_) => "MapViews",
            Scenario::MapLife(_) => "MapLife",
            Scenario::NameVolume(_) => "NameVolume",
        }
    }
}

/// Expands (property, tier, per-run seed) into a scenario. All randomness ends here.
pub fn generate(prop: &str, tier: Tier, rng: &mut Rng, index: u64) -> Scenario {
    let big = tier == Tier::Thorough;
    match prop {
        "C06" if rng.chance(1, if big { 150 } else { 400 }) => Scenario::RoundTrip(RoundTrip::generate_large(rng, big)),
        "C06" => {
            let max_len = if big { if rng.chance(1, 10) { 60_000 } else { 6_000 } } else if rng.chance(1, 20) { 20_000 } else { 2_500 };
            Scenario::RoundTrip(RoundTrip::generate(rng, max_len))
        },
        "C14" => {
            match rng.below(10) {
                // Structures of 0.5-1 MiB, and (separately) of tens of megabytes: few, because each costs seconds.
                0..=4 if rng.chance(1, if big { 100 } else { 250 }) => Scenario::StreamFault(StreamFault::generate_large(rng, false)),
                0..=4 if rng.chance(1, if big { 400 } else { 150 }) => Scenario::StreamFault(StreamFault::generate_large(rng, true)),
                0..=4 => {
                    let max_len = if big { *rng.pick(&[300usize, 1200, 4096]) } else { *rng.pick(&[120usize, 400, 1000]) };
                    Scenario::StreamFault(StreamFault::generate(rng, max_len))
                },
                5 => {
                    let max_len = if big { *rng.pick(&[300usize, 1200, 4096]) } else { *rng.pick(&[120usize, 400, 1000]) };
                    Scenario::FileFault(FileFault::generate(rng, max_len))
                },
                6..=8 => Scenario::Writer(Writer::generate(rng, true, big)),
                _ => Scenario::MapViews(MapViews::generate(rng, if big { 600 } else { 200 }, true)),
            }
        },
        // Directed, by position in the batch: the two giants.
        "C19" if index % (if big { 2_000_000 } else { 10_000_000 }) == 3 => Scenario::Supports(Supports::generate_giant(rng, 0)),
        "C19" if index % (if big { 2_000_000 } else { 10_000_000 }) == 4 => Scenario::Supports(Supports::generate_giant(rng, 1)),
        // Clustered data (short and long select superblocks interleaved): at fixed positions of every batch.
        "C19" if index % 500 == 5 => Scenario::Supports(Supports::generate_clustered(rng)),
        "C19" => {
            match rng.below(4) {
                0 | 1 => Scenario::Supports(Supports::generate(rng, if big { 140_000 } else { 20_000 })),
                2 => Scenario::Foreign(Foreign::generate(rng, if big { 6000 } else { 1500 })),
                _ => Scenario::Skip(Skip::generate(rng, if big { 4000 } else { 1000 })),
            }
        },
        "C12" => Scenario::Writer(Writer::generate(rng, false, big)),
        // Directed, by position in the batch (the seed still chooses its shape): one giant per quick run.
        "C13" if index % (if big { 4000 } else { 100_000 }) == 5 => Scenario::MapViews(MapViews::generate_giant(rng)),
        "C13" => { let max_len = if rng.chance(1, 12) { 24_000 } else if big { 1500 } else { 300 }; Scenario::MapViews(MapViews::generate(rng, max_len, false)) },
        "C18" => Scenario::MapLife(MapLife::generate(rng, big)),
        "C20" if index % (if big { 400 } else { 100_000 }) == 7 => Scenario::NameVolume(NameVolume::generate_wrap(rng)),
        "C20" => Scenario::NameVolume(NameVolume::generate(rng, big)),
        _ => panic!("sdsim: no generator for property {}", prop),
    }
}

/// Number of scenarios per tier.
pub fn budget(prop: &str, tier: Tier) -> u64 {
    // Quick: a few seconds per property on 16 cores. Thorough: several minutes.
    match (prop, tier) {
        ("C06", Tier::Quick) => 200_000,
        ("C06", Tier::Thorough) => 12_000_000,
        ("C14", Tier::Quick) => 6_000,
        ("C14", Tier::Thorough) => 300_000,
        ("C19", Tier::Quick) => 400_000,
        ("C19", Tier::Thorough) => 30_000_000,
        ("C12", Tier::Quick) => 1_000_000,
        ("C12", Tier::Thorough) => 60_000_000,
        ("C13", Tier::Quick) => 1_500,
        ("C13", Tier::Thorough) => 80_000,
        ("C18", Tier::Quick) => 20_000,
        ("C18", Tier::Thorough) => 500_000,
        ("C20", Tier::Quick) => 48,
        ("C20", Tier::Thorough) => 2_000,
        _ => 1000,
    }
}
