//! The only source of randomness in the simulator: splitmix64 seeding + xoshiro256**.
//! No dependency on the `rand` crate, whose streams may change between versions.

#[derive(Clone, Debug)]
pub struct Rng {
    s: [u64; 4],
}

pub fn splitmix(state: &mut u64) -> u64 {
    *state = state.wrapping_add(0x9E37_79B9_7F4A_7C15);
    let mut z = *state;
    z = (z ^ (z >> 30)).wrapping_mul(0xBF58_476D_1CE4_E5B9);
    z = (z ^ (z >> 27)).wrapping_mul(0x94D0_49BB_1331_11EB);
    z ^ (z >> 31)
}

/// Mixes several integers into one seed (order-sensitive).
pub fn mix(parts: &[u64]) -> u64 {
    let mut state: u64 = 0x243F_6A88_85A3_08D3;
    let mut out = 0u64;
    for p in parts {
        state ^= *p;
        out = splitmix(&mut state) ^ out.rotate_left(17);
    }
    out
}

/// FNV-1a over bytes; used for property names and signatures.
pub fn fnv(bytes: &[u8]) -> u64 {
    let mut h: u64 = 0xcbf2_9ce4_8422_2325;
    for b in bytes {
        h ^= *b as u64;
        h = h.wrapping_mul(0x0000_0100_0000_01B3);
    }
    h
}

impl Rng {
    pub fn new(seed: u64) -> Rng {
        let mut st = seed;
        let s = [splitmix(&mut st), splitmix(&mut st), splitmix(&mut st), splitmix(&mut st)];
        Rng { s }
    }

    pub fn next(&mut self) -> u64 {
        let result = self.s[1].wrapping_mul(5).rotate_left(7).wrapping_mul(9);
        let t = self.s[1] << 17;
        self.s[2] ^= self.s[0];
        self.s[3] ^= self.s[1];
        self.s[1] ^= self.s[2];
        self.s[0] ^= self.s[3];
        self.s[2] ^= t;
        self.s[3] = self.s[3].rotate_left(45);
        result
    }

    /// Uniform in `0..n` (`n > 0`).
    pub fn below(&mut self, n: u64) -> u64 {
        debug_assert!(n > 0);
        // Multiply-shift; bias is irrelevant here.
        (((self.next() as u128) * (n as u128)) >> 64) as u64
    }

    pub fn below_usize(&mut self, n: usize) -> usize {
        self.below(n as u64) as usize
    }

    /// Uniform in `lo..=hi`.
    pub fn range(&mut self, lo: u64, hi: u64) -> u64 {
        debug_assert!(lo <= hi);
        if lo == 0 && hi == u64::MAX {
            return self.next();
        }
        lo + self.below(hi - lo + 1)
    }

    pub fn range_usize(&mut self, lo: usize, hi: usize) -> usize {
        self.range(lo as u64, hi as u64) as usize
    }

    /// True with probability `num / den`.
    pub fn chance(&mut self, num: u64, den: u64) -> bool {
        self.below(den) < num
    }

    pub fn pick<'a, T>(&mut self, items: &'a [T]) -> &'a T {
        &items[self.below_usize(items.len())]
    }

    pub fn bool(&mut self) -> bool {
        self.next() & 1 == 1
    }

    /// A value with a random bit length: exercises all widths evenly.
    pub fn wide(&mut self) -> u64 {
        let bits = self.below(65);
        if bits == 0 { 0 } else { self.next() >> (64 - bits) }
    }
}
