//! Shared vocabulary: violations, per-run statistics, outcomes, panic capture.

use serde::{Deserialize, Serialize};
use std::cell::RefCell;
use std::collections::BTreeMap;
use std::panic::{self, AssertUnwindSafe};

#[derive(Clone, Debug, Serialize, Deserialize, PartialEq, Eq)]
pub struct Violation {
    pub property: String,
    /// Which clause of the property's oracle failed (stable identifier).
    pub clause: String,
    /// The call site / type / operation at which it failed (stable identifier; used for known findings).
    pub site: String,
    /// Human-readable details (not used for matching).
    pub message: String,
}

impl Violation {
    pub fn new(property: &str, clause: &str, site: &str, message: String) -> Violation {
        Violation { property: property.to_string(), clause: clause.to_string(), site: site.to_string(), message }
    }

    /// Two violations are "the same failure" for shrinking and known findings if these agree.
    pub fn key(&self) -> (String, String, String) {
        (self.property.clone(), self.clause.clone(), self.site.clone())
    }

    pub fn is_harness(&self) -> bool {
        self.clause == "harness"
    }
}

/// A set of 64-bit signatures kept as a vector that is sorted and deduplicated lazily
/// (8 bytes per distinct element; only its size is ever reported).
#[derive(Clone, Debug, Default, Serialize, Deserialize)]
pub struct SigSet {
    v: Vec<u64>,
    #[serde(skip)]
    compacted: usize,
}

impl SigSet {
    pub fn insert(&mut self, x: u64) {
        self.v.push(x);
        if self.v.len() > 2 * self.compacted + 4096 { self.compact(); }
    }

    fn compact(&mut self) {
        self.v.sort_unstable();
        self.v.dedup();
        self.compacted = self.v.len();
    }

    pub fn absorb(&mut self, other: &SigSet) {
        self.v.extend_from_slice(&other.v);
        if self.v.len() > 2 * self.compacted + 4096 { self.compact(); }
    }

    pub fn distinct(&mut self) -> usize {
        self.compact();
        self.v.len()
    }
}

#[derive(Clone, Debug, Default, Serialize, Deserialize)]
pub struct Stats {
    /// Executions of the system under test (a scenario that enumerates fault points runs many).
    pub evaluations: u64,
    /// Simulated steps: I/O or synchronisation calls served by the simulator.
    pub steps: u64,
    /// I/O signatures of executions in which at least one awkward behaviour or fault actually fired.
    pub sigs: SigSet,
    /// How often each fault kind actually fired.
    pub faults: BTreeMap<String, u64>,
    /// Rare conditions reached.
    pub probes: BTreeMap<String, u64>,
}

impl Stats {
    pub fn fault(&mut self, name: &str, n: u64) {
        if n > 0 { *self.faults.entry(name.to_string()).or_insert(0) += n; }
    }

    pub fn probe(&mut self, name: &str) {
        *self.probes.entry(name.to_string()).or_insert(0) += 1;
    }

    pub fn probe_if(&mut self, cond: bool, name: &str) {
        if cond { self.probe(name); }
    }

    pub fn merge(&mut self, other: &Stats) {
        self.evaluations += other.evaluations;
        self.steps += other.steps;
        self.sigs.absorb(&other.sigs);
        for (k, v) in other.faults.iter() { *self.faults.entry(k.clone()).or_insert(0) += v; }
        for (k, v) in other.probes.iter() { *self.probes.entry(k.clone()).or_insert(0) += v; }
    }

    /// Accounts for one simulated stream.
    pub fn io(&mut self, prefix: &str, s: &crate::simio::IoStats) {
        self.steps += s.calls;
        self.fault(&format!("{}1-short", prefix), s.short);
        self.fault(&format!("{}2-eintr", prefix), s.eintr);
        if prefix == "R" {
            self.fault("R3-eof", s.eof);
            self.fault("R4-error", s.err);
        } else {
            self.fault("W3-zero", s.zero);
            self.fault("W4-error", s.err);
        }
    }
}

#[derive(Clone, Debug, Default, Serialize, Deserialize)]
pub struct Outcome {
    pub violation: Option<Violation>,
    pub stats: Stats,
}

impl Outcome {
    pub fn fail(mut self, v: Violation) -> Outcome {
        if self.violation.is_none() { self.violation = Some(v); }
        self
    }
}

//-----------------------------------------------------------------------------
// Panic capture: the system under test may panic; that must not kill the worker or print noise.

thread_local! {
    static LAST_PANIC: RefCell<Option<String>> = RefCell::new(None);
    static QUIET: RefCell<bool> = RefCell::new(false);
}

pub fn install_panic_hook() {
    let default = panic::take_hook();
    panic::set_hook(Box::new(move |info| {
        let quiet = QUIET.try_with(|q| *q.borrow()).unwrap_or(false);
        if quiet {
            let msg = if let Some(s) = info.payload().downcast_ref::<&str>() { s.to_string() }
                else if let Some(s) = info.payload().downcast_ref::<String>() { s.clone() }
                else { "<non-string panic>".to_string() };
            let loc = info.location().map(|l| format!("{}:{}", l.file(), l.line())).unwrap_or_default();
            let _ = LAST_PANIC.try_with(|p| *p.borrow_mut() = Some(format!("{} at {}", msg, loc)));
        } else {
            default(info);
        }
    }));
}

/// Work done by the code under test that a watchdog may count as progress (names handed out, say). A scenario
/// that is slow but advancing is not a hang; one that spins without getting anywhere is.
pub static PROGRESS: std::sync::atomic::AtomicU64 = std::sync::atomic::AtomicU64::new(0);

#[inline]
pub fn progress() {
    PROGRESS.fetch_add(1, std::sync::atomic::Ordering::Relaxed);
}

/// In a slice or worker process: a thread that prints the line `H` whenever `PROGRESS` has moved during the
/// last two seconds. It never touches the scenario or its results.
pub fn start_heartbeat() {
    std::thread::spawn(|| {
        use std::io::Write;
        let mut last = 0u64;
        loop {
            std::thread::sleep(std::time::Duration::from_secs(2));
            let now = PROGRESS.load(std::sync::atomic::Ordering::Relaxed);
            if now != last {
                last = now;
                let out = std::io::stdout();
                let mut o = out.lock();
                let _ = writeln!(o, "H");
                let _ = o.flush();
            }
        }
    });
}

/// Runs `f`, converting a panic into `Err(message)`.
pub fn catch<R, F: FnOnce() -> R>(f: F) -> Result<R, String> {
    let was = QUIET.with(|q| std::mem::replace(&mut *q.borrow_mut(), true));
    let r = panic::catch_unwind(AssertUnwindSafe(f));
    QUIET.with(|q| *q.borrow_mut() = was);
    match r {
        Ok(v) => Ok(v),
        Err(_) => Err(LAST_PANIC.with(|p| p.borrow_mut().take()).unwrap_or_else(|| "<panic>".to_string())),
    }
}
