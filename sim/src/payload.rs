//! Payload specifications (plain data) and their expansion into real library values.
//!
//! `Payload` describes a value of one of the library's `Serialize` types, optionally wrapped in up to
//! three levels of `Option`. `build()` turns it into a `Box<dyn DynVal>` whose methods run the real,
//! monomorphized library code on the simulated streams.

use serde::{Deserialize, Serialize as SerdeSerialize};
use std::any::Any;
use std::fmt::Debug;
use std::io;

use simple_sds::bit_vector::rank_support::RankSupport;
use simple_sds::bit_vector::select_support::SelectSupport;
use simple_sds::bit_vector::{BitVector, Complement, Identity};
use simple_sds::int_vector::{IntVector, IntVectorMapper};
use simple_sds::ops::{Access, BitVec, Pop, PredSucc, Push, Rank, Resize, Select, SelectZero, Vector, VectorIndex};
use simple_sds::raw_vector::{AccessRaw, PopRaw, PushRaw, RawVector, RawVectorMapper};
use simple_sds::rl_vector::{RLBuilder, RLVector};
use simple_sds::serialize::{self, MappedBytes, MappedOption, MappedSlice, MappedStr, MemoryMap, MemoryMapped, Serialize};
use simple_sds::sparse_vector::{SparseBuilder, SparseVector};
use simple_sds::wavelet_matrix::wm_core::WMCore;
use simple_sds::wavelet_matrix::WaveletMatrix;

use crate::content::{gen_len, Content, Pat};
use crate::rng::Rng;
use crate::simio::{SimReader, SimWriter};

//-----------------------------------------------------------------------------
// Specification

#[derive(Clone, Debug, SerdeSerialize, Deserialize, PartialEq, Eq)]
pub enum Leaf {
    U64(u64),
    Usize(u64),
    Pair(u64, u64),
    VecU64(Content),
    VecUsize(Content),
    VecPair(Content),
    Bytes(Content),
    Str(Content),
    /// `c.len` bits. route 0: from words via `with_len` + `set_int`; 1: `push_bit`; 2: `push_int` with mixed widths;
    /// 3: as 2, then extra items pushed and popped again; 4: as 0, then resized up and back down.
    Raw { c: Content, route: u8 },
    /// `c.len` items of `width` bits.
    Int { c: Content, width: usize },
    /// `c.len` bits; `supports` bit 0 = rank, 1 = select, 2 = select_zero. route 0: from `RawVector`; 1: from a bool iterator.
    Bv { c: Content, supports: u8, route: u8 },
    Rank(Content),
    Sel(Content),
    SelZ(Content),
    /// `Option<SelectSupport>` as it sits inside a serialized bitvector (`some` = present). Its body is a
    /// concatenation of three integer vectors; its mapped view is `MappedOption<IntVectorMapper>`, which maps
    /// only the first of them (a "partial view": good for skipping the option by its declared length).
    OptSel { c: Content, some: bool },
    /// Set bits of `c` (universe `c.len * stride`, positions scaled by `stride`); multiset repeats some values.
    Sparse { c: Content, stride: usize, multiset: bool },
    /// Runs of `c`, scaled by `scale`. route 0: builder, one `try_set` per maximal run; 1: `copy_bit_vec` (scale ignored).
    Rl { c: Content, scale: usize, route: u8 },
    /// `c.len` items masked to `width` bits. ity 0..4 = u8, u16, u32, u64, usize source vector.
    WmCore { c: Content, width: usize, ity: u8 },
    Wm { c: Content, width: usize, ity: u8 },
    /// A user-defined structure (`LazyPart`): `c.len` words that are always loaded, then an optional part of
    /// `body` words that is written with `Option::serialize` (`present`) or `absent_option`, and that the
    /// structure's own `load` passes over with `skip_option`.
    Lazy { c: Content, body: usize, present: bool },
    /// `c.len` items of a user-defined fixed-size item type (`Triple`, three words: a size that divides no power of two).
    VecTriple(Content),
}

#[derive(Clone, Debug, SerdeSerialize, Deserialize, PartialEq, Eq)]
pub struct Payload {
    pub leaf: Leaf,
    /// Number of `Option` layers around the leaf type (0..=3).
    pub opt: u8,
    /// If `Some(k)`, layer `k` (0 = outermost) is `None` and the leaf is not materialised.
    pub none_at: Option<u8>,
}

impl Payload {
    pub fn plain(leaf: Leaf) -> Payload {
        Payload { leaf, opt: 0, none_at: None }
    }

    pub fn is_option(&self) -> bool {
        self.opt > 0
    }

    pub fn mappable(&self) -> bool {
        matches!(self.leaf, Leaf::VecU64(_) | Leaf::VecUsize(_) | Leaf::VecPair(_) | Leaf::VecTriple(_) | Leaf::Bytes(_) | Leaf::Str(_) | Leaf::Raw { .. } | Leaf::Int { .. } | Leaf::OptSel { .. })
    }

    /// The mapped view covers only the first part of the structure: a cut in the rest cannot be noticed by it.
    pub fn partial_view(&self) -> bool {
        matches!(self.leaf, Leaf::OptSel { .. })
    }

    /// A value of the same type and the same serialized size but different content (for byte vectors and
    /// strings also a different length, where the padding leaves room). Used to rewrite a mapped file in place.
    pub fn sibling(&self) -> Payload {
        let bump = |c: &Content, shrink: bool| {
            let len = if shrink && c.len > 0 && c.len % 8 != 1 { c.len - 1 } else { c.len };
            Content { len, pat: if c.pat == Pat::Random { Pat::Counter } else { Pat::Random }, salt: c.salt.wrapping_add(1) }
        };
        let leaf = match &self.leaf {
            Leaf::VecU64(c) => Leaf::VecU64(bump(c, false)),
            Leaf::VecUsize(c) => Leaf::VecUsize(bump(c, false)),
            Leaf::VecPair(c) => Leaf::VecPair(bump(c, false)),
            Leaf::VecTriple(c) => Leaf::VecTriple(bump(c, false)),
            Leaf::Bytes(c) => Leaf::Bytes(bump(c, true)),
            Leaf::Str(c) => Leaf::Str(bump(c, true)),
            Leaf::Raw { c, .. } => Leaf::Raw { c: bump(c, false), route: 0 },
            Leaf::Int { c, width } => Leaf::Int { c: bump(c, false), width: *width },
            other => other.clone(),
        };
        Payload { leaf, opt: self.opt, none_at: self.none_at }
    }

    pub fn describe(&self) -> String {
        let mut s = String::new();
        for k in 0..self.opt {
            if self.none_at == Some(k) { s.push_str("None"); return s; }
            s.push_str("Some(");
        }
        s.push_str(&format!("{:?}", self.leaf));
        for _ in 0..self.opt { s.push(')'); }
        s
    }
}

//-----------------------------------------------------------------------------
// Generation

#[derive(Clone, Copy, Debug, PartialEq, Eq)]
pub enum Family {
    All,
    /// Types with a memory-mapped counterpart.
    Mappable,
}

pub struct GenCfg {
    pub family: Family,
    /// Upper bound for lengths in the type's own unit.
    pub max_len: usize,
    /// Bit mask of enabled leaf kinds (swarm testing); bit i = i-th kind below.
    pub kinds: u32,
    pub allow_options: bool,
}

pub const N_KINDS: u32 = 23;

impl GenCfg {
    pub fn swarm(rng: &mut Rng, family: Family, max_len: usize) -> GenCfg {
        // Each run enables a random subset of kinds; one run in four enables everything.
        let kinds = if rng.chance(1, 4) { u32::MAX } else {
            let mut k = 0u32;
            while k == 0 { k = (rng.next() as u32) & (rng.next() as u32 | rng.next() as u32); }
            k
        };
        GenCfg { family, max_len, kinds, allow_options: true }
    }
}

fn gen_leaf(rng: &mut Rng, cfg: &GenCfg) -> Leaf {
    let mappable_kinds: [u32; 9] = [3, 4, 5, 6, 7, 8, 9, 20, 22];
    loop {
        let kind = match cfg.family {
            Family::All => rng.below(N_KINDS as u64) as u32,
            Family::Mappable => *rng.pick(&mappable_kinds),
        };
        if cfg.kinds & (1 << kind) == 0 && cfg.kinds != u32::MAX {
            // Make sure the loop terminates even if the mask only has bits outside the family.
            if rng.chance(7, 8) { continue; }
        }
        let m = cfg.max_len;
        return match kind {
            0 => Leaf::U64(rng.wide()),
            1 => Leaf::Usize(rng.wide()),
            2 => Leaf::Pair(rng.wide(), rng.wide()),
            3 => Leaf::VecU64(gen_content(rng, m / 8)),
            4 => Leaf::VecUsize(gen_content(rng, m / 8)),
            5 => Leaf::VecPair(gen_content(rng, m / 16)),
            6 => Leaf::Bytes(gen_content(rng, m)),
            7 => Leaf::Str(gen_content(rng, m)),
            8 => Leaf::Raw { c: gen_content(rng, m * 4), route: rng.below(5) as u8 },
            9 => {
                let width = gen_width(rng);
                Leaf::Int { c: gen_content(rng, (m * 8 / width).max(1)), width }
            },
            10 => Leaf::Bv { c: gen_bits(rng, m * 8), supports: rng.below(8) as u8, route: rng.below(2) as u8 },
            11 => Leaf::Rank(gen_bits(rng, m * 8)),
            12 => Leaf::Sel(gen_bits(rng, m * 8)),
            13 => Leaf::SelZ(gen_bits(rng, m * 8)),
            14 | 15 => {
                // usize::MAX is a sentinel: the universe is the largest possible one (usize::MAX or a few below).
                let stride = match rng.below(7) { 0 | 1 | 2 => 1, 3 => rng.range_usize(2, 100), 4 => 1 << rng.range(8, 20), 5 => 1 << rng.range(20, 40), _ => usize::MAX };
                Leaf::Sparse { c: gen_bits(rng, m * 2), stride, multiset: rng.chance(1, 3) }
            },
            16 | 17 => {
                let scale = match rng.below(6) { 0 | 1 | 2 | 3 => 1, 4 => rng.range_usize(2, 1000), _ => 1 << rng.range(10, 40) };
                Leaf::Rl { c: gen_bits(rng, m * 4), scale, route: rng.below(2) as u8 }
            },
            18 => {
                // The core has no per-value table, so every width up to 64 is affordable.
                let width = match rng.below(4) { 0 => *rng.pick(&[1usize, 8, 9, 16, 17, 31, 32, 33, 63, 64]), 1 => rng.range_usize(12, 64), _ => rng.range_usize(1, 11) };
                Leaf::WmCore { c: gen_content(rng, m / 4), width, ity: rng.below(5) as u8 }
            },
            20 => Leaf::OptSel { c: gen_bits(rng, m * 8), some: rng.chance(4, 5) },
            22 => Leaf::VecTriple(gen_content(rng, m / 24)),
            21 => Leaf::Lazy { c: gen_content(rng, m / 16), body: gen_len(rng, m / 16), present: rng.chance(3, 4) },
            _ => Leaf::Wm { c: gen_content(rng, m / 4), width: if rng.chance(1, 10) { rng.range_usize(12, 14) } else { rng.range_usize(1, 11) }, ity: rng.below(5) as u8 },
        };
    }
}

fn gen_content(rng: &mut Rng, max: usize) -> Content {
    let len = gen_len(rng, max);
    Content::generate(rng, len)
}

fn gen_bits(rng: &mut Rng, max_bits: usize) -> Content {
    // Directed: vectors long and sparse (or dense) enough for "long" select superblocks, down to a single value.
    if max_bits >= 100_000 && rng.chance(1, 20) {
        let len = rng.range_usize(83_521, 200_000);
        let pat = *rng.pick(&[Pat::Single, Pat::AllButOne, Pat::Ends, Pat::Density(1), Pat::Density(999)]);
        return Content { len, pat, salt: rng.next() & 0xFFFF_FFFF };
    }
    let len = gen_len(rng, max_bits);
    let mut c = Content::generate(rng, len);
    if rng.chance(1, 3) {
        c.pat = Pat::Density(*rng.pick(&[0u16, 2, 10, 30, 500, 970, 998, 1000]));
    }
    c
}

pub fn gen_width(rng: &mut Rng) -> usize {
    match rng.below(4) {
        0 => *rng.pick(&[1usize, 2, 7, 8, 9, 31, 32, 33, 63, 64]),
        _ => rng.range_usize(1, 64),
    }
}

/// One large structure whose size sits around a power of two (chunked loaders and writers change
/// behaviour there). `words`: size of the body in 64-bit words.
pub fn gen_large_payload(rng: &mut Rng, words: usize) -> Payload {
    let c = |rng: &mut Rng, len: usize| Content { len, pat: *rng.pick(&[Pat::Random, Pat::Counter, Pat::Density(30), Pat::Density(500)]), salt: rng.next() & 0xFFFF_FFFF };
    let leaf = match rng.below(9) {
        0 => Leaf::VecU64(c(rng, words)),
        1 | 2 => Leaf::VecPair(c(rng, words)),          // `words` items of two words each
        3 => if rng.bool() { Leaf::VecUsize(c(rng, words)) } else { Leaf::VecTriple(c(rng, words / 3 + 1)) },
        4 => { let extra = rng.range_usize(0, 7); Leaf::Bytes(c(rng, 8 * words + extra)) },
        5 => { let less = rng.range_usize(0, 63); Leaf::Raw { c: c(rng, 64 * words - less), route: *rng.pick(&[0u8, 2, 3, 4]) } },
        6 => { let width = gen_width(rng); Leaf::Int { c: c(rng, (64 * words / width).min(4_000_000)), width } },
        7 => Leaf::Rank(c(rng, (512 * words).min(40_000_000))),   // one (u64,u64) sample per 512 bits
        _ => Leaf::Bv { c: c(rng, (64 * words).min(40_000_000)), supports: rng.below(8) as u8, route: 0 },
    };
    let opt = if rng.chance(1, 4) { 1 } else { 0 };
    Payload { leaf, opt, none_at: None }
}

/// A bitvector (or one of its select supports) long and sparse / dense enough for "long" select
/// superblocks, down to a superblock that holds a single value.
pub fn gen_long_superblock_payload(rng: &mut Rng) -> Payload {
    let len = rng.range_usize(83_521, 200_000);
    let pat = *rng.pick(&[Pat::Single, Pat::AllButOne, Pat::Ends, Pat::Density(1), Pat::Density(999)]);
    let c = Content { len, pat, salt: rng.next() & 0xFFFF_FFFF };
    let leaf = match rng.below(4) { 0 => Leaf::Sel(c), 1 => Leaf::SelZ(c), _ => Leaf::Bv { c, supports: 1 + rng.below(7) as u8, route: 0 } };
    Payload { leaf, opt: rng.below(2) as u8, none_at: None }
}

pub fn gen_payload(rng: &mut Rng, cfg: &GenCfg) -> Payload {
    let leaf = gen_leaf(rng, cfg);
    let (opt, none_at) = if cfg.allow_options && rng.chance(2, 5) {
        let opt = match rng.below(6) { 0 | 1 | 2 => 1u8, 3 | 4 => 2, _ => 3 };
        let none_at = if rng.chance(1, 3) { Some(rng.below(opt as u64) as u8) } else { None };
        (opt, none_at)
    } else { (0, None) };
    Payload { leaf, opt, none_at }
}

impl Leaf {
    fn content(&self) -> Option<&Content> {
        match self {
            Leaf::U64(_) | Leaf::Usize(_) | Leaf::Pair(..) => None,
            Leaf::VecU64(c) | Leaf::VecUsize(c) | Leaf::VecPair(c) | Leaf::VecTriple(c) | Leaf::Bytes(c) | Leaf::Str(c) | Leaf::Rank(c) | Leaf::Sel(c) | Leaf::SelZ(c) => Some(c),
            Leaf::OptSel { c, .. } | Leaf::Lazy { c, .. } => Some(c),
            Leaf::Raw { c, .. } | Leaf::Int { c, .. } | Leaf::Bv { c, .. } | Leaf::Sparse { c, .. } | Leaf::Rl { c, .. } | Leaf::WmCore { c, .. } | Leaf::Wm { c, .. } => Some(c),
        }
    }

    fn with_content(&self, n: Content) -> Leaf {
        let mut l = self.clone();
        match &mut l {
            Leaf::U64(_) | Leaf::Usize(_) | Leaf::Pair(..) => {},
            Leaf::VecU64(c) | Leaf::VecUsize(c) | Leaf::VecPair(c) | Leaf::VecTriple(c) | Leaf::Bytes(c) | Leaf::Str(c) | Leaf::Rank(c) | Leaf::Sel(c) | Leaf::SelZ(c) => *c = n,
            Leaf::OptSel { c, .. } | Leaf::Lazy { c, .. } => *c = n,
            Leaf::Raw { c, .. } | Leaf::Int { c, .. } | Leaf::Bv { c, .. } | Leaf::Sparse { c, .. } | Leaf::Rl { c, .. } | Leaf::WmCore { c, .. } | Leaf::Wm { c, .. } => *c = n,
        }
        l
    }

    pub fn simpler(&self) -> Vec<Leaf> {
        let mut out = Vec::new();
        if let Some(c) = self.content() {
            for s in c.simpler() { out.push(self.with_content(s)); }
        }
        match self {
            Leaf::U64(v) if *v != 0 => out.push(Leaf::U64(0)),
            Leaf::Usize(v) if *v != 0 => out.push(Leaf::Usize(0)),
            Leaf::Pair(a, b) if *a != 0 || *b != 0 => out.push(Leaf::Pair(0, 0)),
            Leaf::Raw { c, route } if *route != 0 => out.push(Leaf::Raw { c: c.clone(), route: 0 }),
            Leaf::Int { c, width } if *width != 1 && *width != 64 => {
                out.push(Leaf::Int { c: c.clone(), width: 64 });
                out.push(Leaf::Int { c: c.clone(), width: 1 });
            },
            Leaf::Bv { c, supports, route } => {
                if *supports != 0 {
                    out.push(Leaf::Bv { c: c.clone(), supports: 0, route: *route });
                    for b in 0..3 { if supports & (1 << b) != 0 && supports.count_ones() > 1 { out.push(Leaf::Bv { c: c.clone(), supports: supports & !(1 << b), route: *route }); } }
                }
                if *route != 0 { out.push(Leaf::Bv { c: c.clone(), supports: *supports, route: 0 }); }
            },
            Leaf::Sparse { c, stride, multiset } => {
                if *stride != 1 { out.push(Leaf::Sparse { c: c.clone(), stride: 1, multiset: *multiset }); }
                if *stride == usize::MAX { out.push(Leaf::Sparse { c: c.clone(), stride: 1 << 30, multiset: *multiset }); }
                if *multiset { out.push(Leaf::Sparse { c: c.clone(), stride: *stride, multiset: false }); }
            },
            Leaf::Rl { c, scale, route } => {
                if *scale != 1 { out.push(Leaf::Rl { c: c.clone(), scale: 1, route: *route }); }
                if *route != 0 { out.push(Leaf::Rl { c: c.clone(), scale: *scale, route: 0 }); }
            },
            Leaf::WmCore { c, width, ity } if *width != 1 => out.push(Leaf::WmCore { c: c.clone(), width: 1, ity: *ity }),
            Leaf::Wm { c, width, ity } if *width != 1 => out.push(Leaf::Wm { c: c.clone(), width: 1, ity: *ity }),
            Leaf::Lazy { c, body, present } => {
                if *body > 0 { out.push(Leaf::Lazy { c: c.clone(), body: 0, present: *present }); out.push(Leaf::Lazy { c: c.clone(), body: body / 2, present: *present }); }
                if *present { out.push(Leaf::Lazy { c: c.clone(), body: *body, present: false }); }
            },
            _ => {},
        }
        out
    }
}

impl Payload {
    pub fn simpler(&self) -> Vec<Payload> {
        let mut out = Vec::new();
        if self.opt > 0 {
            // Remove one Option layer (keeping a None somewhere if there was one and it still fits).
            let opt = self.opt - 1;
            let none_at = match self.none_at { Some(k) if opt == 0 => { let _ = k; None }, Some(k) => Some(k.min(opt - 1)), None => None };
            out.push(Payload { leaf: self.leaf.clone(), opt, none_at });
            if self.none_at.is_some() {
                out.push(Payload { leaf: self.leaf.clone(), opt: self.opt, none_at: None });
            }
        }
        for l in self.leaf.simpler() {
            out.push(Payload { leaf: l, opt: self.opt, none_at: self.none_at });
        }
        out
    }
}

//-----------------------------------------------------------------------------
// Probes: a battery of in-range queries, recorded as a flat list of numbers.

pub trait Probe {
    fn probe(&self, out: &mut Vec<u64>);
    /// The type's `load` keeps only part of what was serialized (by design): the loaded value is equal to the
    /// original as far as it goes, but it is smaller.
    fn partial_load() -> bool where Self: Sized { false }
}

/// Digest of what the consuming adapters deliver after reads from both ends. Everything built on `fold` /
/// `try_fold` / `rfold` (count, last, for_each, sum, all, rev().fold ...) must respect both cursors.
pub fn consume_digest<I, F: Fn() -> I>(mk: F, full: bool) -> Vec<u64>
where I: DoubleEndedIterator, I::Item: std::hash::Hash {
    use std::hash::{Hash, Hasher};
    let h = |x: &I::Item| -> u64 { let mut st = std::collections::hash_map::DefaultHasher::new(); x.hash(&mut st); st.finish() };
    let mut out = Vec::new();
    let configs: &[(usize, usize)] = if full { &[(0, 0), (0, 1), (1, 0), (2, 3), (0, 70), (65, 1)] } else { &[(0, 1), (2, 3)] };
    for (f, k) in configs.iter() {
        let prep = || { let mut it = mk(); for _ in 0..*f { it.next(); } for _ in 0..*k { it.next_back(); } it };
        out.push(prep().count() as u64);
        out.push(prep().last().map(|v| h(&v)).unwrap_or(1));
        out.push(prep().fold(7u64, |acc, v| acc.wrapping_mul(31).wrapping_add(h(&v))));
        if full {
            out.push(prep().rfold(7u64, |acc, v| acc.wrapping_mul(31).wrapping_add(h(&v))));
            out.push(prep().rev().fold(7u64, |acc, v| acc.wrapping_mul(31).wrapping_add(h(&v))));
            let mut n = 0u64; let mut y = prep(); let all = y.all(|_| { n += 1; true }); out.push(n + all as u64);
            let mut acc = 7u64; prep().for_each(|v| acc = acc.wrapping_mul(31).wrapping_add(h(&v))); out.push(acc);
            out.push(prep().rev().last().map(|v| h(&v)).unwrap_or(1));
        }
    }
    out
}

fn sample_points(n: usize) -> Vec<usize> {
    // Up to ~40 indices in 0..n: ends, block boundaries, an even spread.
    let mut v: Vec<usize> = Vec::new();
    if n == 0 { return v; }
    for x in [0usize, 1, 2, 62, 63, 64, 65, 127, 128, 511, 512, 513, 4095, 4096, 4097] {
        if x < n { v.push(x); }
    }
    for k in 1..=16u128 { v.push(((n as u128 - 1) * k / 16) as usize); }
    for x in [n - 1, n.saturating_sub(2), n.saturating_sub(64), n.saturating_sub(65)] { if x < n { v.push(x); } }
    v.sort_unstable();
    v.dedup();
    v
}

fn opt(x: Option<usize>) -> u64 {
    match x { Some(v) => v as u64, None => u64::MAX - 1 }
}

fn pair(x: Option<(usize, usize)>, out: &mut Vec<u64>) {
    match x { Some((a, b)) => { out.push(a as u64); out.push(b as u64); }, None => { out.push(u64::MAX - 1); } }
}

impl Probe for u64 { fn probe(&self, out: &mut Vec<u64>) { out.push(*self); } }
impl Probe for usize { fn probe(&self, out: &mut Vec<u64>) { out.push(*self as u64); } }
impl Probe for (u64, u64) { fn probe(&self, out: &mut Vec<u64>) { out.push(self.0); out.push(self.1); } }

impl Probe for Vec<u64> {
    fn probe(&self, out: &mut Vec<u64>) { out.push(self.len() as u64); for i in sample_points(self.len()) { out.push(self[i]); } }
}
impl Probe for Vec<usize> {
    fn probe(&self, out: &mut Vec<u64>) { out.push(self.len() as u64); for i in sample_points(self.len()) { out.push(self[i] as u64); } }
}
impl Probe for Vec<(u64, u64)> {
    fn probe(&self, out: &mut Vec<u64>) { out.push(self.len() as u64); for i in sample_points(self.len()) { out.push(self[i].0); out.push(self[i].1); } }
}
/// A fixed-size item type of the library's user: three words.
#[repr(C)]
#[derive(Clone, Copy, Default, PartialEq, Eq, Debug, Hash)]
pub struct Triple(pub u64, pub u64, pub u64);
impl simple_sds::serialize::Serializable for Triple {}
impl Probe for Vec<Triple> {
    fn probe(&self, out: &mut Vec<u64>) { out.push(self.len() as u64); for i in sample_points(self.len()) { out.push(self[i].0); out.push(self[i].1); out.push(self[i].2); } }
}
impl Probe for Vec<u8> {
    fn probe(&self, out: &mut Vec<u64>) { out.push(self.len() as u64); for i in sample_points(self.len()) { out.push(self[i] as u64); } }
}
impl Probe for String {
    fn probe(&self, out: &mut Vec<u64>) { out.push(self.len() as u64); out.push(self.chars().count() as u64); for i in sample_points(self.len()) { out.push(self.as_bytes()[i] as u64); } }
}

impl Probe for RawVector {
    fn probe(&self, out: &mut Vec<u64>) {
        out.push(self.len() as u64);
        out.push(self.count_ones() as u64);
        for i in sample_points(self.len()) { out.push(self.bit(i) as u64); }
        let words = (self.len() + 63) / 64;
        for i in sample_points(words) { out.push(self.word(i)); }
        if self.len() >= 13 { for i in sample_points(self.len() - 12) { out.push(unsafe { self.int(i, 13) }); } }
    }
}

impl Probe for IntVector {
    fn probe(&self, out: &mut Vec<u64>) {
        out.push(self.len() as u64);
        out.push(self.width() as u64);
        for i in sample_points(self.len()) { out.push(self.get(i)); }
        out.push(self.iter().fold(0u64, |a, b| a.wrapping_mul(31).wrapping_add(b)));
    }
}

fn probe_bitvec<'a, T>(bv: &'a T, rank: bool, select: bool, select_zero: bool, predsucc: bool, out: &mut Vec<u64>)
where T: BitVec<'a> + Rank<'a> + Select<'a> + SelectZero<'a> + PredSucc<'a> {
    let n = bv.len();
    out.push(n as u64);
    out.push(bv.count_ones() as u64);
    out.push(bv.count_zeros() as u64);
    let pts = sample_points(n);
    for &i in pts.iter() { out.push(bv.get(i) as u64); }
    if rank {
        for &i in pts.iter() { out.push(bv.rank(i) as u64); out.push(bv.rank_zero(i) as u64); }
        out.push(bv.rank(n) as u64);
    }
    if select {
        let ones = bv.count_ones();
        for r in sample_points(ones) {
            out.push(opt(bv.select(r)));
            let mut it = bv.select_iter(r);
            pair(it.next(), out); pair(it.next(), out);
        }
        out.push(opt(bv.select(ones)));
        let mut it = bv.one_iter();
        pair(it.next(), out);
        out.push(bv.one_iter().count() as u64);
    }
    if select_zero {
        let zeros = bv.count_zeros();
        for r in sample_points(zeros) {
            out.push(opt(bv.select_zero(r)));
            let mut it = bv.select_zero_iter(r);
            pair(it.next(), out); pair(it.next(), out);
        }
        out.push(opt(bv.select_zero(zeros)));
    }
    if predsucc {
        for &i in pts.iter() {
            pair(bv.predecessor(i).next(), out);
            pair(bv.successor(i).next(), out);
        }
    }
    // Plain iteration digest.
    let mut h = 0u64;
    for (i, b) in bv.iter().enumerate() { if b { h = h.wrapping_mul(1_000_003).wrapping_add(i as u64 + 1); } }
    out.push(h);
}

impl Probe for BitVector {
    fn probe(&self, out: &mut Vec<u64>) {
        out.push(self.supports_rank() as u64 | (self.supports_select() as u64) << 1 | (self.supports_select_zero() as u64) << 2);
        probe_bitvec(self, self.supports_rank(), self.supports_select(), self.supports_select_zero(), self.supports_pred_succ(), out);
    }
}

impl Probe for SparseVector {
    fn probe(&self, out: &mut Vec<u64>) {
        out.push(self.is_multiset() as u64);
        if self.is_multiset() {
            // Multisets: plain iteration digests over dense positions are not meaningful; use value queries.
            out.push(self.len() as u64);
            out.push(self.count_ones() as u64);
            for r in sample_points(self.count_ones()) { out.push(opt(self.select(r))); }
            for i in sample_points(self.len()) { out.push(self.get(i) as u64); out.push(self.rank(i) as u64); pair(self.predecessor(i).next(), out); pair(self.successor(i).next(), out); }
            let mut h = 0u64;
            for (r, p) in self.one_iter() { h = h.wrapping_mul(1_000_003).wrapping_add((r as u64) << 1 ^ p as u64); }
            out.push(h);
        } else if self.len() <= (1 << 22) {
            probe_bitvec(self, true, true, true, true, out);
        } else {
            // Huge universe: skip the O(len) iteration digest.
            out.push(self.len() as u64);
            out.push(self.count_ones() as u64);
            for r in sample_points(self.count_ones()) { out.push(opt(self.select(r))); }
            for r in sample_points(self.count_zeros().min(1 << 20)) { out.push(opt(self.select_zero(r))); }
            for i in sample_points(self.len()) { out.push(self.get(i) as u64); out.push(self.rank(i) as u64); pair(self.predecessor(i).next(), out); pair(self.successor(i).next(), out); }
            let mut h = 0u64;
            for (r, p) in self.one_iter() { h = h.wrapping_mul(1_000_003).wrapping_add((r as u64) << 1 ^ p as u64); }
            out.push(h);
        }
    }
}

impl Probe for RLVector {
    fn probe(&self, out: &mut Vec<u64>) {
        if self.len() <= (1 << 22) {
            probe_bitvec(self, true, true, true, true, out);
        } else {
            out.push(self.len() as u64);
            out.push(self.count_ones() as u64);
            for i in sample_points(self.len()) { out.push(self.get(i) as u64); out.push(self.rank(i) as u64); pair(self.predecessor(i).next(), out); pair(self.successor(i).next(), out); }
            for r in sample_points(self.count_ones()) { out.push(opt(self.select(r))); }
            for r in sample_points(self.count_zeros()) { out.push(opt(self.select_zero(r))); }
        }
        let mut h = 0u64;
        let mut runs = 0u64;
        for (s, l) in self.run_iter() { h = h.wrapping_mul(1_000_003).wrapping_add((s as u64).rotate_left(20) ^ l as u64); runs += 1; }
        out.push(h); out.push(runs);
    }
}

impl Probe for RankSupport {
    fn probe(&self, out: &mut Vec<u64>) { out.push(self.blocks() as u64); }
}
impl Probe for SelectSupport<Identity> {
    fn probe(&self, out: &mut Vec<u64>) { out.push(self.superblocks() as u64); out.push(self.long_superblocks() as u64); out.push(self.short_superblocks() as u64); }
}
impl Probe for SelectSupport<Complement> {
    fn probe(&self, out: &mut Vec<u64>) { out.push(self.superblocks() as u64); out.push(self.long_superblocks() as u64); out.push(self.short_superblocks() as u64); }
}

impl Probe for WMCore {
    fn probe(&self, out: &mut Vec<u64>) {
        out.push(self.len() as u64);
        out.push(self.width() as u64);
        for i in sample_points(self.len()) {
            if let Some((pos, value)) = self.map_down(i) {
                out.push(pos as u64); out.push(value);
                out.push(self.map_down_with(i, value) as u64);
                out.push(opt(self.map_up_with(pos, value)));
            } else { out.push(u64::MAX - 2); }
        }
    }
}

impl Probe for WaveletMatrix {
    fn probe(&self, out: &mut Vec<u64>) {
        out.push(self.len() as u64);
        out.push(self.width() as u64);
        for i in sample_points(self.len()) {
            let v = self.get(i);
            out.push(v);
            let r = self.rank(i, v);
            out.push(r as u64);
            out.push(opt(self.select(r, v)));
            out.push(self.contains(v) as u64);
            pair(self.inverse_select(i).map(|(a, b)| (a, b as usize)), out);
            let mut it = self.select_iter(r, v);
            pair(it.next(), out);
            out.push(self.rank(self.len(), v) as u64);
        }
        out.push(self.iter().fold(0u64, |a, b| a.wrapping_mul(31).wrapping_add(b)));
    }
}

/// `Option<SelectSupport>` under its own name, so that it can have a mapped view of its own.
#[derive(PartialEq, Debug)]
pub struct SelOpt(pub Option<SelectSupport<Identity>>);

impl Serialize for SelOpt {
    fn serialize_header<W: io::Write>(&self, writer: &mut W) -> io::Result<()> { self.0.serialize_header(writer) }
    fn serialize_body<W: io::Write>(&self, writer: &mut W) -> io::Result<()> { self.0.serialize_body(writer) }
    fn load<R: io::Read>(reader: &mut R) -> io::Result<Self> { Ok(SelOpt(Option::<SelectSupport<Identity>>::load(reader)?)) }
    fn size_in_elements(&self) -> usize { self.0.size_in_elements() }
}

impl Probe for SelOpt {
    fn probe(&self, out: &mut Vec<u64>) { self.0.probe(out); }
}

impl MapView for SelOpt {
    type View<'a> = MappedOption<'a, IntVectorMapper<'a>>;
    fn compare<'a>(&self, view: &Self::View<'a>) -> Result<(), String> {
        match (&self.0, view.as_ref()) {
            (None, None) => Ok(()),
            (Some(sel), Some(first)) => {
                // The first integer vector of the body, decoded from the serialized bytes.
                let mut bytes: Vec<u8> = Vec::new();
                sel.serialize(&mut bytes).map_err(|e| e.to_string())?;
                let samples = IntVector::load(&mut &bytes[..]).map_err(|e| e.to_string())?;
                samples.compare(first)
            },
            _ => Err("MappedOption over Option<SelectSupport>: Some/None mismatch".into()),
        }
    }
}

impl<T: Probe> Probe for Option<T> {
    fn probe(&self, out: &mut Vec<u64>) {
        match self { Some(v) => { out.push(1); v.probe(out); }, None => out.push(0) }
    }
    fn partial_load() -> bool { T::partial_load() }
}

/// A structure of the library's user, written the way the crate documents it: a part that is always loaded
/// and an optional part. This reader does not want the optional part and passes over it with `skip_option`,
/// so a loaded value is smaller than the one that was written; what was not loaded takes no part in equality.
#[derive(Debug)]
pub struct LazyPart {
    pub head: Vec<u64>,
    pub body: Option<Vec<u64>>,
}

impl PartialEq for LazyPart {
    fn eq(&self, other: &LazyPart) -> bool { self.head == other.head }
}

impl Serialize for LazyPart {
    fn serialize_header<W: io::Write>(&self, writer: &mut W) -> io::Result<()> { Serialize::serialize(&self.head, writer) }
    fn serialize_body<W: io::Write>(&self, writer: &mut W) -> io::Result<()> {
        if self.body.is_some() { Serialize::serialize(&self.body, writer) } else { serialize::absent_option(writer) }
    }
    fn load<R: io::Read>(reader: &mut R) -> io::Result<Self> {
        let head = Vec::<u64>::load(reader)?;
        serialize::skip_option(reader)?;
        Ok(LazyPart { head, body: None })
    }
    fn size_in_elements(&self) -> usize {
        self.head.size_in_elements() + if self.body.is_some() { self.body.size_in_elements() } else { serialize::absent_option_size() }
    }
}

impl Probe for LazyPart {
    fn probe(&self, out: &mut Vec<u64>) { self.head.probe(out); }
    fn partial_load() -> bool { true }
}

//-----------------------------------------------------------------------------
// Memory-mapped counterparts

/// A placeholder view for types without a memory-mapped counterpart.
pub struct NoView;

impl<'a> MemoryMapped<'a> for NoView {
    fn new(_: &'a MemoryMap, _: usize) -> io::Result<Self> { Err(io::Error::new(io::ErrorKind::Unsupported, "no mapped counterpart")) }
    fn map_offset(&self) -> usize { 0 }
    fn map_len(&self) -> usize { 0 }
}

pub trait MapView: Sized {
    type View<'a>: MemoryMapped<'a>;
    /// Compares the whole content of the view with `self`.
    fn compare<'a>(&self, view: &Self::View<'a>) -> Result<(), String>;
}

macro_rules! no_view {
    ($($t:ty),*) => { $( impl MapView for $t { type View<'a> = NoView; fn compare<'a>(&self, _: &NoView) -> Result<(), String> { Err("not mappable".into()) } } )* };
}
no_view!(LazyPart, u64, usize, (u64, u64), BitVector, RankSupport, SelectSupport<Identity>, SelectSupport<Complement>, SparseVector, RLVector, WMCore, WaveletMatrix);

fn cmp_slices<T: PartialEq + Debug>(what: &str, a: &[T], b: &[T]) -> Result<(), String> {
    if a.len() != b.len() { return Err(format!("{}: view has {} items, value has {}", what, a.len(), b.len())); }
    for i in 0..a.len() { if a[i] != b[i] { return Err(format!("{}: item {} is {:?} in the view, {:?} in the value", what, i, a[i], b[i])); } }
    Ok(())
}

fn cmp_mapped_slice<T: simple_sds::serialize::Serializable + PartialEq + Debug>(what: &str, view: &MappedSlice<'_, T>, own: &[T]) -> Result<(), String> {
    if view.len() != own.len() || view.is_empty() != own.is_empty() { return Err(format!("{}::len / is_empty", what)); }
    cmp_slices(what, view.as_ref(), own)?;
    // The other access paths: Deref and Index.
    let d: &[T] = view;
    if d.len() != own.len() { return Err(format!("{}: Deref length", what)); }
    for i in sample_points(own.len()) { if view[i] != own[i] || d[i] != own[i] { return Err(format!("{}: index {}", what, i)); } }
    Ok(())
}

impl MapView for Vec<u64> {
    type View<'a> = MappedSlice<'a, u64>;
    fn compare<'a>(&self, view: &Self::View<'a>) -> Result<(), String> { cmp_mapped_slice("MappedSlice<u64>", view, self.as_slice()) }
}
impl MapView for Vec<usize> {
    type View<'a> = MappedSlice<'a, usize>;
    fn compare<'a>(&self, view: &Self::View<'a>) -> Result<(), String> { cmp_mapped_slice("MappedSlice<usize>", view, self.as_slice()) }
}
impl MapView for Vec<(u64, u64)> {
    type View<'a> = MappedSlice<'a, (u64, u64)>;
    fn compare<'a>(&self, view: &Self::View<'a>) -> Result<(), String> { cmp_mapped_slice("MappedSlice<(u64,u64)>", view, self.as_slice()) }
}
impl MapView for Vec<Triple> {
    type View<'a> = MappedSlice<'a, Triple>;
    fn compare<'a>(&self, view: &Self::View<'a>) -> Result<(), String> { cmp_mapped_slice("MappedSlice<Triple>", view, self.as_slice()) }
}
impl MapView for Vec<u8> {
    type View<'a> = MappedBytes<'a>;
    fn compare<'a>(&self, view: &Self::View<'a>) -> Result<(), String> {
        if view.len() != self.len() || view.is_empty() != self.is_empty() { return Err("MappedBytes::len / is_empty".into()); }
        cmp_slices("MappedBytes", view.as_ref(), self.as_slice())?;
        let d: &[u8] = view;
        for i in sample_points(self.len()) { if view[i] != self[i] || d[i] != self[i] { return Err(format!("MappedBytes: index {}", i)); } }
        Ok(())
    }
}
impl MapView for String {
    type View<'a> = MappedStr<'a>;
    fn compare<'a>(&self, view: &Self::View<'a>) -> Result<(), String> {
        if view.len() != self.len() || view.is_empty() != self.is_empty() { return Err("MappedStr::len / is_empty".into()); }
        let s: &str = view.as_ref();
        let d: &str = view;
        if s == self.as_str() && d == self.as_str() { Ok(()) } else { Err("MappedStr: content differs".into()) }
    }
}
impl MapView for RawVector {
    type View<'a> = RawVectorMapper<'a>;
    fn compare<'a>(&self, view: &Self::View<'a>) -> Result<(), String> {
        if view.len() != self.len() { return Err(format!("RawVectorMapper::len {} != {}", view.len(), self.len())); }
        if view.count_ones() != self.count_ones() { return Err("RawVectorMapper::count_ones".into()); }
        if view.is_empty() != self.is_empty() || view.is_mutable() { return Err("RawVectorMapper::is_empty / is_mutable".into()); }
        // Zero-width reads are defined (they answer 0) at every offset up to and including the length.
        for off in [0usize, 1, 63, 64, self.len() / 2, self.len().saturating_sub(1), self.len()] {
            if off > self.len() { continue; }
            // Differential: only where the loaded structure answers is the view obliged to answer the same.
            if let Ok(want) = crate::core::catch(|| unsafe { self.int(off, 0) }) {
                if unsafe { view.int(off, 0) } != want { return Err(format!("RawVectorMapper::int({}, 0)", off)); }
            }
        }
        for i in sample_points((self.len() + 63) / 64) { if view.word(i) != self.word(i) || unsafe { view.word_unchecked(i) } != self.word(i) { return Err(format!("RawVectorMapper::word({})", i)); } }
        for w in [1usize, 7, 31, 58, 59, 63, 64] { if self.len() >= w { for i in sample_points(self.len() - w + 1) { if unsafe { view.int(i, w) != self.int(i, w) } { return Err(format!("RawVectorMapper::int({}, {})", i, w)); } } } }
        let words: &MappedSlice<u64> = view.as_ref();
        cmp_slices("RawVectorMapper words", words.as_ref(), self.as_ref())?;
        // The nested view is a view like any other: it ends where the structure that contains it ends.
        if words.map_offset() + words.map_len() != view.map_offset() + view.map_len() || words.map_offset() < view.map_offset() {
            return Err(format!("RawVectorMapper: the nested word slice covers elements {}..{}, the vector {}..{}", words.map_offset(), words.map_offset() + words.map_len(), view.map_offset(), view.map_offset() + view.map_len()));
        }
        for i in sample_points(self.len()) { if view.bit(i) != self.bit(i) { return Err(format!("RawVectorMapper::bit({})", i)); } }
        if self.len() >= 13 { for i in sample_points(self.len() - 12) { if unsafe { view.int(i, 13) != self.int(i, 13) } { return Err(format!("RawVectorMapper::int({}, 13)", i)); } } }
        Ok(())
    }
}
impl MapView for IntVector {
    type View<'a> = IntVectorMapper<'a>;
    fn compare<'a>(&self, view: &Self::View<'a>) -> Result<(), String> {
        if view.len() != self.len() { return Err(format!("IntVectorMapper::len {} != {}", view.len(), self.len())); }
        if view.width() != self.width() { return Err("IntVectorMapper::width".into()); }
        for i in 0..self.len() { if view.get(i) != self.get(i) { return Err(format!("IntVectorMapper::get({})", i)); } }
        if !view.iter().eq(self.iter()) { return Err("IntVectorMapper::iter".into()); }
        if !view.iter().rev().eq(self.iter().rev()) { return Err("IntVectorMapper::iter (backwards)".into()); }
        // Positioned reads through the iterator: nth, skip, step_by, and a mixed front/back history.
        for k in [0usize, 1, 4, 63, 64] {
            if view.iter().nth(k) != self.iter().nth(k) { return Err(format!("IntVectorMapper::iter().nth({})", k)); }
            if view.iter().nth_back(k) != self.iter().nth_back(k) { return Err(format!("IntVectorMapper::iter().nth_back({})", k)); }
            if !view.iter().skip(k).take(5).eq(self.iter().skip(k).take(5)) { return Err(format!("IntVectorMapper::iter().skip({})", k)); }
        }
        if !view.iter().step_by(3).eq(self.iter().step_by(3)) { return Err("IntVectorMapper::iter().step_by(3)".into()); }
        {
            let (mut a, mut b) = (view.iter(), self.iter());
            for step in 0..12usize {
                let (x, y) = match step % 4 { 0 => (a.next(), b.next()), 1 => (a.next_back(), b.next_back()), 2 => (a.nth(2), b.nth(2)), _ => (a.nth_back(1), b.nth_back(1)) };
                if x != y || a.len() != b.len() { return Err(format!("IntVectorMapper::iter(): mixed front/back history diverges at step {}", step)); }
            }
        }
        if consume_digest(|| view.iter(), self.len() <= 1 << 16) != consume_digest(|| self.iter(), self.len() <= 1 << 16) { return Err("IntVectorMapper::iter(): a consuming adapter (count, last, fold, rfold, all, for_each) after reads from both ends".into()); }
        if view.is_empty() != self.is_empty() || view.is_mutable() { return Err("IntVectorMapper::is_empty / is_mutable".into()); }
        for idx in [self.len(), self.len() + 1, 1usize << 60, usize::MAX / 2, usize::MAX - 1, usize::MAX] {
            if let Ok(want) = crate::core::catch(|| self.get_or(idx, 77)) {
                if view.get_or(idx, 77) != want { return Err(format!("IntVectorMapper::get_or({}, 77) past the end", idx)); }
            }
        }
        for idx in sample_points(self.len()) { if view.get_or(idx, 77) != self.get(idx) { return Err(format!("IntVectorMapper::get_or({}, 77)", idx)); } }
        let raw: &RawVectorMapper = view.as_ref();
        let own: &RawVector = self.as_ref();
        if raw.len() != own.len() { return Err("IntVectorMapper raw len".into()); }
        if raw.map_offset() + raw.map_len() != view.map_offset() + view.map_len() || raw.map_offset() < view.map_offset() {
            return Err(format!("IntVectorMapper: the nested raw vector covers elements {}..{}, the vector {}..{}", raw.map_offset(), raw.map_offset() + raw.map_len(), view.map_offset(), view.map_offset() + view.map_len()));
        }
        own.compare(raw)?;
        Ok(())
    }
}
impl<T: MapView> MapView for Option<T> {
    type View<'a> = MappedOption<'a, T::View<'a>>;
    fn compare<'a>(&self, view: &Self::View<'a>) -> Result<(), String> {
        if view.is_some() != self.is_some() || view.is_none() != self.is_none() { return Err("MappedOption: Some/None mismatch".into()); }
        match (self, view.as_ref()) {
            (Some(v), Some(inner)) => { v.compare(view.unwrap())?; v.compare(inner) },
            (None, None) => Ok(()),
            _ => Err("MappedOption::as_ref mismatch".into()),
        }
    }
}

/// Result of trying to create and check a view.
#[derive(Debug, Clone, PartialEq, Eq)]
pub enum ViewResult {
    /// View created, content equal; (map_offset, map_len).
    Ok(usize, usize),
    /// View created but its content differs from the value.
    Differs(String),
    /// `MemoryMapped::new` returned an error.
    Refused(String),
}

//-----------------------------------------------------------------------------
// Dynamic values

pub trait Item: Serialize + PartialEq + Debug + Probe + MapView + 'static {}
impl<T: Serialize + PartialEq + Debug + Probe + MapView + 'static> Item for T {}

pub trait DynVal {
    fn type_name(&self) -> &'static str;
    fn size_in_elements(&self) -> usize;
    fn size_in_bytes(&self) -> usize;
    fn serialize(&self, w: &mut SimWriter) -> io::Result<()>;
    fn serialize_split(&self, w: &mut SimWriter) -> io::Result<()>;
    fn serialize_vec(&self) -> io::Result<Vec<u8>>;
    /// Loads a value of the same type.
    fn load(&self, r: &mut SimReader) -> io::Result<Box<dyn DynVal>>;
    fn load_slice(&self, r: &mut &[u8]) -> io::Result<Box<dyn DynVal>>;
    fn serialize_to(&self, path: &std::path::Path) -> io::Result<()>;
    fn load_from(&self, path: &std::path::Path) -> io::Result<Box<dyn DynVal>>;
    fn eq_dyn(&self, other: &dyn DynVal) -> bool;
    fn probe(&self) -> Vec<u64>;
    fn short(&self) -> String;
    fn as_any(&self) -> &dyn Any;
    fn view(&self, map: &MemoryMap, offset: usize) -> ViewResult;
    fn partial_load(&self) -> bool;
}

pub struct Holder<T: Item>(pub T);

impl<T: Item> DynVal for Holder<T> {
    fn type_name(&self) -> &'static str { std::any::type_name::<T>() }
    fn size_in_elements(&self) -> usize { self.0.size_in_elements() }
    fn size_in_bytes(&self) -> usize { self.0.size_in_bytes() }
    fn serialize(&self, w: &mut SimWriter) -> io::Result<()> { self.0.serialize(w) }
    fn serialize_split(&self, w: &mut SimWriter) -> io::Result<()> { self.0.serialize_header(w)?; self.0.serialize_body(w) }
    fn serialize_vec(&self) -> io::Result<Vec<u8>> { let mut v: Vec<u8> = Vec::new(); self.0.serialize(&mut v)?; Ok(v) }
    fn load(&self, r: &mut SimReader) -> io::Result<Box<dyn DynVal>> { let v = T::load(r)?; Ok(Box::new(Holder(v))) }
    fn load_slice(&self, r: &mut &[u8]) -> io::Result<Box<dyn DynVal>> { let v = T::load(r)?; Ok(Box::new(Holder(v))) }
    fn serialize_to(&self, path: &std::path::Path) -> io::Result<()> { serialize::serialize_to(&self.0, path) }
    fn load_from(&self, path: &std::path::Path) -> io::Result<Box<dyn DynVal>> { let v: T = serialize::load_from(path)?; Ok(Box::new(Holder(v))) }
    fn eq_dyn(&self, other: &dyn DynVal) -> bool {
        match other.as_any().downcast_ref::<Holder<T>>() { Some(o) => self.0 == o.0, None => false }
    }
    fn probe(&self) -> Vec<u64> { let mut out = Vec::new(); self.0.probe(&mut out); out }
    fn short(&self) -> String { let s = format!("{:?}", self.0); if s.len() > 200 { format!("{}…", &s[..s.char_indices().take_while(|(i, _)| *i < 200).last().map(|(i, c)| i + c.len_utf8()).unwrap_or(0)]) } else { s } }
    fn as_any(&self) -> &dyn Any { self }
    fn partial_load(&self) -> bool { T::partial_load() }
    fn view(&self, map: &MemoryMap, offset: usize) -> ViewResult {
        match <T as MapView>::View::new(map, offset) {
            Ok(v) => match self.0.compare(&v) {
                Ok(()) => ViewResult::Ok(v.map_offset(), v.map_len()),
                Err(e) => ViewResult::Differs(e),
            },
            Err(e) => ViewResult::Refused(format!("{:?}: {}", e.kind(), e)),
        }
    }
}

fn wrap<T: Item>(p: &Payload, v: Option<T>) -> Box<dyn DynVal> {
    // `v` is None iff p.none_at is Some(_); the leaf value is not needed then.
    match (p.opt, p.none_at) {
        (0, _) => Box::new(Holder(v.unwrap())),
        (1, None) => Box::new(Holder(Some(v.unwrap()))),
        (1, Some(_)) => Box::new(Holder(None::<T>)),
        (2, None) => Box::new(Holder(Some(Some(v.unwrap())))),
        (2, Some(0)) => Box::new(Holder(None::<Option<T>>)),
        (2, Some(_)) => Box::new(Holder(Some(None::<T>))),
        (3, None) => Box::new(Holder(Some(Some(Some(v.unwrap()))))),
        (3, Some(0)) => Box::new(Holder(None::<Option<Option<T>>>)),
        (3, Some(1)) => Box::new(Holder(Some(None::<Option<T>>))),
        (3, Some(_)) => Box::new(Holder(Some(Some(None::<T>)))),
        _ => panic!("sdsim: unsupported option depth {}", p.opt),
    }
}

fn lazy<T: Item, F: FnOnce() -> T>(p: &Payload, f: F) -> Box<dyn DynVal> {
    if p.opt > 0 && p.none_at.is_some() { wrap::<T>(p, None) } else { wrap(p, Some(f())) }
}

pub fn build_raw(c: &Content, route: u8) -> RawVector {
    let words = c.bit_words();
    match route {
        0 => {
            let mut v = RawVector::with_len(c.len, false);
            let mut off = 0usize;
            for w in words.iter() {
                let width = (c.len - off).min(64);
                unsafe { v.set_int(off, *w, width); }
                off += width;
            }
            v
        },
        1 => {
            let mut v = RawVector::new();
            for i in 0..c.len { v.push_bit((words[i / 64] >> (i % 64)) & 1 == 1); }
            v
        },
        3 => {
            // The same content, reached through a history that ends with pops (of integers that may straddle a word boundary, and of bits).
            let mut v = build_raw(c, 2);
            let widths = [40usize, 1, 64, 13, 63, 7];
            let k = (c.salt % 6) as usize;
            let mut pushed: Vec<usize> = Vec::new();
            for j in 0..(1 + c.salt as usize % 4) { let w = widths[(k + j) % 6]; unsafe { v.push_int(c.salt.wrapping_mul(0x9E37_79B9_7F4A_7C15) | 1, w); } pushed.push(w); }
            v.push_bit(true); v.push_bit(false);
            let _ = v.pop_bit(); let _ = v.pop_bit();
            while let Some(w) = pushed.pop() { let _ = unsafe { v.pop_int(w) }; }
            v
        },
        4 => {
            let mut v = build_raw(c, 0);
            let extra = 1 + (c.salt as usize % 200);
            v.resize(c.len + extra, true);
            v.reserve(64);
            v.resize(c.len, false);
            v
        },
        _ => {
            // Mixed-width pushes: widths cycle through a salt-dependent list.
            let widths = [1usize, 64, 13, 7, 33, 63, 2, 17];
            let mut v = RawVector::with_capacity(c.len / 2);
            let mut off = 0usize;
            let mut k = (c.salt % 8) as usize;
            while off < c.len {
                let width = widths[k % 8].min(c.len - off);
                k += 1;
                let mut x = 0u64;
                for b in 0..width { let i = off + b; x |= ((words[i / 64] >> (i % 64)) & 1) << b; }
                // Leave garbage above `width` bits on purpose: push_int must mask it.
                let garbage = if width < 64 { (c.salt | 1) << width } else { 0 };
                unsafe { v.push_int(x | garbage, width); }
                off += width;
            }
            v
        },
    }
}

pub fn build_int(c: &Content, width: usize) -> IntVector {
    let words = c.words();
    if c.salt % 4 == 1 {
        // Route: initialised vector, then set().
        let mut v = IntVector::with_len(words.len(), width, u64::MAX).unwrap();
        for (i, w) in words.iter().enumerate() { v.set(i, *w); }
        return v;
    }
    let mut v = IntVector::new(width).unwrap();
    for w in words { v.push(w); } // values wider than `width` are truncated by the library
    // The same content, reached through different histories (chosen by the salt): plain pushes,
    // pushes followed by pops, a resize up and back down.
    match c.salt % 4 {
        2 => { for j in 0..(1 + c.salt as usize % 3) { v.push(u64::MAX - j as u64); } for _ in 0..(1 + c.salt as usize % 3) { let _ = v.pop(); } },
        3 => { let n = v.len(); v.resize(n + 1 + (c.salt as usize % 50), u64::MAX); v.resize(n, 0); },
        _ => {},
    }
    v
}

pub fn build_bv(c: &Content, supports: u8, route: u8) -> BitVector {
    let mut bv = if route == 0 { BitVector::from(build_raw(c, 0)) } else { c.bits().into_iter().collect::<BitVector>() };
    if supports & 1 != 0 { bv.enable_rank(); }
    if supports & 2 != 0 { bv.enable_select(); }
    if supports & 4 != 0 { bv.enable_select_zero(); }
    bv
}

pub fn sparse_positions(c: &Content, stride: usize, multiset: bool) -> (usize, Vec<usize>) {
    let base = c.positions();
    // Without set bits the format spends universe / 2 bits on buckets: keep the universe small then.
    let stride = if base.is_empty() { 1 } else { stride };
    if stride == usize::MAX && c.len > 0 {
        // The largest universes there are; positions spread over the whole range, the last one near the end.
        let universe = usize::MAX - (c.salt as usize % 3);
        let step = universe / c.len;
        let mut pos: Vec<usize> = base.iter().map(|p| p * step).collect();
        if let Some(last) = pos.last_mut() { if c.salt % 2 == 0 { *last = universe - 1; } }
        if multiset { if let Some(first) = pos.first().cloned() { pos.insert(0, first); } }
        return (universe, pos);
    }
    let universe = c.len * stride;
    let mut pos = Vec::with_capacity(base.len());
    for (i, p) in base.iter().enumerate() {
        let v = p * stride;
        pos.push(v);
        if multiset {
            let reps = match (c.salt as usize + i) % 5 { 0 => 1, 1 => 3, _ => 0 };
            for _ in 0..reps { pos.push(v); }
        }
    }
    (universe, pos)
}

pub fn build_sparse(c: &Content, stride: usize, multiset: bool) -> SparseVector {
    let (universe, pos) = sparse_positions(c, stride, multiset);
    // Other public routes to a sparse vector (chosen by the salt): conversion from a plain bitvector,
    // and the iterator constructor (which sizes the universe to the last value + 1).
    if !multiset && stride == 1 && c.salt % 4 == 1 {
        let bv = build_bv(c, 0, 0);
        return SparseVector::copy_bit_vec(&bv);
    }
    if multiset && c.salt % 3 == 0 {
        if let Ok(v) = SparseVector::try_from_iter(pos.iter().cloned()) { return v; }
    }
    let mut b = if multiset { SparseBuilder::multiset(universe, pos.len()) } else { SparseBuilder::new(universe, pos.len()).unwrap() };
    for p in pos { b.set(p); }
    SparseVector::try_from(b).unwrap()
}

pub fn runs_of(c: &Content) -> Vec<(usize, usize)> {
    let w = c.bit_words();
    let mut runs = Vec::new();
    let mut i = 0usize;
    let get = |i: usize| (w[i / 64] >> (i % 64)) & 1 == 1;
    while i < c.len {
        if get(i) {
            let s = i;
            while i < c.len && get(i) { i += 1; }
            runs.push((s, i - s));
        } else { i += 1; }
    }
    runs
}

pub fn build_rl(c: &Content, scale: usize, route: u8) -> RLVector {
    if route == 1 {
        let bv = build_bv(c, 0, 0);
        return RLVector::copy_bit_vec(&bv);
    }
    let mut b = RLBuilder::new();
    for (s, l) in runs_of(c) {
        // Split some runs into two adjacent try_set calls: the builder must merge them.
        if l * scale >= 2 && (s + c.salt as usize) % 3 == 0 {
            let first = l * scale / 2;
            b.try_set(s * scale, first).unwrap();
            b.try_set(s * scale + first, l * scale - first).unwrap();
        } else {
            b.try_set(s * scale, l * scale).unwrap();
        }
    }
    b.set_len(c.len * scale);
    RLVector::from(b)
}

pub fn wm_values(c: &Content, width: usize) -> Vec<u64> {
    let mask = if width >= 64 { u64::MAX } else { (1u64 << width) - 1 };
    // Make sure the top bit of the width is used by some value, so that the structure really has `width` levels.
    c.words().into_iter().enumerate().map(|(i, w)| { let v = (w ^ (w >> 17)) & mask; if i == 0 && width > 0 { v | (1u64 << (width.min(64) - 1)) } else { v } }).collect()
}

macro_rules! by_ity {
    ($ity:expr, $vals:expr, $target:ident) => {
        match $ity {
            0 => $target::from($vals.iter().map(|v| (*v & 0xFF) as u8).collect::<Vec<u8>>()),
            1 => $target::from($vals.iter().map(|v| (*v & 0xFFFF) as u16).collect::<Vec<u16>>()),
            2 => $target::from($vals.iter().map(|v| *v as u32).collect::<Vec<u32>>()),
            3 => $target::from($vals.clone()),
            _ => $target::from($vals.iter().map(|v| *v as usize).collect::<Vec<usize>>()),
        }
    };
}

fn ity_width(width: usize, ity: u8) -> usize {
    match ity { 0 => width.min(8), 1 => width.min(16), 2 => width.min(32), _ => width }
}

pub fn build_wm_core(c: &Content, width: usize, ity: u8) -> WMCore {
    let vals = wm_values(c, ity_width(width, ity));
    by_ity!(ity, vals, WMCore)
}

pub fn build_wm(c: &Content, width: usize, ity: u8) -> WaveletMatrix {
    let vals = wm_values(c, ity_width(width, ity).min(16));
    by_ity!(ity, vals, WaveletMatrix)
}

impl Payload {
    /// Expands the specification into a real value (runs library constructors).
    pub fn build(&self) -> Box<dyn DynVal> {
        let p = self;
        match &self.leaf {
            Leaf::U64(v) => lazy(p, || *v),
            Leaf::Usize(v) => lazy(p, || *v as usize),
            Leaf::Pair(a, b) => lazy(p, || (*a, *b)),
            Leaf::VecU64(c) => lazy(p, || c.words()),
            Leaf::VecUsize(c) => lazy(p, || c.words().into_iter().map(|w| w as usize).collect::<Vec<usize>>()),
            Leaf::VecPair(c) => lazy(p, || { let w = c.words_n(2 * c.len); (0..c.len).map(|i| (w[2 * i], w[2 * i + 1])).collect::<Vec<(u64, u64)>>() }),
            Leaf::VecTriple(c) => lazy(p, || { let w = c.words_n(3 * c.len); (0..c.len).map(|i| Triple(w[3 * i], w[3 * i + 1], w[3 * i + 2])).collect::<Vec<Triple>>() }),
            Leaf::Bytes(c) => lazy(p, || c.bytes()),
            Leaf::Str(c) => lazy(p, || c.string()),
            Leaf::Raw { c, route } => lazy(p, || build_raw(c, *route)),
            Leaf::Int { c, width } => lazy(p, || build_int(c, *width)),
            Leaf::Bv { c, supports, route } => lazy(p, || build_bv(c, *supports, *route)),
            Leaf::Rank(c) => lazy(p, || { let bv = build_bv(c, 0, 0); RankSupport::new(&bv) }),
            Leaf::Sel(c) => lazy(p, || { let bv = build_bv(c, 0, 0); SelectSupport::<Identity>::new(&bv) }),
            Leaf::SelZ(c) => lazy(p, || { let bv = build_bv(c, 0, 0); SelectSupport::<Complement>::new(&bv) }),
            Leaf::OptSel { c, some } => lazy(p, || SelOpt(if *some { let bv = build_bv(c, 0, 0); Some(SelectSupport::<Identity>::new(&bv)) } else { None })),
            Leaf::Sparse { c, stride, multiset } => lazy(p, || build_sparse(c, *stride, *multiset)),
            Leaf::Rl { c, scale, route } => lazy(p, || build_rl(c, *scale, *route)),
            Leaf::WmCore { c, width, ity } => lazy(p, || build_wm_core(c, *width, *ity)),
            Leaf::Wm { c, width, ity } => lazy(p, || build_wm(c, *width, *ity)),
            Leaf::Lazy { c, body, present } => lazy(p, || LazyPart { head: c.words(), body: if *present { Some(Content::new(*body, Pat::Random, c.salt ^ 0x77).words()) } else { None } }),
        }
    }

    /// Size predicted from parameters alone, where the library offers `size_by_params` (in elements).
    pub fn size_by_params(&self) -> Option<usize> {
        if self.opt != 0 { return None; }
        match &self.leaf {
            Leaf::Raw { c, .. } => Some(RawVector::size_by_params(c.len)),
            Leaf::Int { c, width } => Some(IntVector::size_by_params(c.len, *width)),
            _ => None,
        }
    }
}
