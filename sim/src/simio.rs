//! Simulated streams: the `Read` / `Write` seam of `Serialize`.
//!
//! Every transfer size, interruption, EOF and error is decided by a plan that is plain data
//! (part of the scenario); nothing here draws random numbers while the system under test runs.

use serde::{Deserialize, Serialize};
use std::io::{self, ErrorKind, Read, Write};

use crate::rng::Rng;

//-----------------------------------------------------------------------------

/// How many bytes a single `read`/`write` call may move.
#[derive(Clone, Debug, Serialize, Deserialize, PartialEq, Eq)]
pub enum Chunk {
    /// Every request is served in full (what a small local file does).
    Unbounded,
    /// At most this many bytes per call.
    Max(usize),
    /// Cyclic list of per-call maxima (each >= 1).
    Seq(Vec<usize>),
    /// Never cross a multiple of this many bytes in one call (and at most that many bytes).
    Align(usize),
}

impl Chunk {
    pub fn limit(&self, call: u64, pos: usize) -> usize {
        match self {
            Chunk::Unbounded => usize::MAX,
            Chunk::Max(n) => (*n).max(1),
            Chunk::Seq(v) => if v.is_empty() { usize::MAX } else { v[(call % v.len() as u64) as usize].max(1) },
            Chunk::Align(a) => { let a = (*a).max(1); a - (pos % a) },
        }
    }

    pub fn is_unbounded(&self) -> bool {
        matches!(self, Chunk::Unbounded)
    }

    pub fn generate(rng: &mut Rng) -> Chunk {
        match rng.below(10) {
            0 | 1 => Chunk::Unbounded,
            2 => Chunk::Max(1),
            3 => Chunk::Max(rng.range_usize(2, 7)),
            4 => Chunk::Max(*rng.pick(&[8usize, 9, 15, 16, 17, 64, 511, 4096])),
            5 => Chunk::Align(*rng.pick(&[3usize, 5, 7, 8, 12, 16, 24, 512, 4096])),
            _ => {
                let n = rng.range_usize(1, 12);
                let mut v = Vec::with_capacity(n);
                for _ in 0..n {
                    let x = match rng.below(4) {
                        0 => 1,
                        1 => rng.range_usize(1, 8),
                        2 => rng.range_usize(1, 64),
                        _ => rng.range_usize(1, 5000),
                    };
                    v.push(x);
                }
                Chunk::Seq(v)
            },
        }
    }
}

/// Error kinds the simulator injects. Kept as an own enum so that scenarios are serializable.
#[derive(Clone, Copy, Debug, Serialize, Deserialize, PartialEq, Eq, PartialOrd, Ord)]
pub enum Kind {
    Other,
    TimedOut,
    WouldBlock,
    ConnectionReset,
    BrokenPipe,
    StorageFull,
    FileTooLarge,
    QuotaExceeded,
    PermissionDenied,
    UnexpectedEof,
    NotFound,
}

pub const READ_KINDS: [Kind; 5] = [Kind::Other, Kind::TimedOut, Kind::WouldBlock, Kind::ConnectionReset, Kind::UnexpectedEof];
pub const WRITE_KINDS: [Kind; 6] = [Kind::StorageFull, Kind::FileTooLarge, Kind::Other, Kind::BrokenPipe, Kind::WouldBlock, Kind::QuotaExceeded];

impl Kind {
    pub fn to_io(self) -> ErrorKind {
        match self {
            Kind::Other => ErrorKind::Other,
            Kind::TimedOut => ErrorKind::TimedOut,
            Kind::WouldBlock => ErrorKind::WouldBlock,
            Kind::ConnectionReset => ErrorKind::ConnectionReset,
            Kind::BrokenPipe => ErrorKind::BrokenPipe,
            Kind::StorageFull => ErrorKind::StorageFull,
            Kind::FileTooLarge => ErrorKind::FileTooLarge,
            Kind::QuotaExceeded => ErrorKind::QuotaExceeded,
            Kind::PermissionDenied => ErrorKind::PermissionDenied,
            Kind::UnexpectedEof => ErrorKind::UnexpectedEof,
            Kind::NotFound => ErrorKind::NotFound,
        }
    }

    pub fn error(self) -> io::Error {
        io::Error::new(self.to_io(), SIM_MSG)
    }
}

/// Message carried by every injected error, so that the oracle can tell "the injected error came
/// back" from "some other error of the same kind".
pub const SIM_MSG: &str = "sdsim-injected";

pub fn is_injected(e: &io::Error) -> bool {
    e.get_ref().map(|inner| inner.to_string() == SIM_MSG).unwrap_or(false)
}

//-----------------------------------------------------------------------------

#[derive(Clone, Debug, Serialize, Deserialize, PartialEq, Eq)]
pub enum ReadFault {
    /// The stream ends after this many bytes (R3).
    Eof(usize),
    /// Reads fail with this kind once this many bytes were delivered (R4). Sticky.
    Err(usize, Kind),
}

#[derive(Clone, Debug, Serialize, Deserialize, PartialEq, Eq)]
pub struct ReadPlan {
    pub chunk: Chunk,
    /// Call indices (0-based, counting every `read` call with a non-empty buffer) that return `Interrupted` (R2).
    pub eintr: Vec<u64>,
    pub fault: Option<ReadFault>,
}

impl ReadPlan {
    pub fn plain() -> ReadPlan {
        ReadPlan { chunk: Chunk::Unbounded, eintr: Vec::new(), fault: None }
    }

    pub fn generate(rng: &mut Rng, approx_calls: u64) -> ReadPlan {
        ReadPlan { chunk: Chunk::generate(rng), eintr: gen_eintr(rng, approx_calls), fault: None }
    }
}

pub fn gen_eintr(rng: &mut Rng, approx_calls: u64) -> Vec<u64> {
    let mut v = Vec::new();
    if rng.chance(1, 2) {
        let n = rng.range(1, 6);
        let hi = approx_calls.max(4);
        for _ in 0..n {
            let c = if rng.chance(1, 3) { rng.below(8) } else { rng.below(hi) };
            if !v.contains(&c) {
                v.push(c);
            }
            if rng.chance(1, 3) && !v.contains(&(c + 1)) {
                v.push(c + 1); // back-to-back interruptions
            }
        }
        v.sort_unstable();
    }
    v
}

/// Counters every simulated stream keeps; merged into the evidence.
#[derive(Clone, Debug, Default)]
pub struct IoStats {
    pub calls: u64,
    pub short: u64,
    pub eintr: u64,
    pub eof: u64,
    pub err: u64,
    pub zero: u64,
    /// Hash of the sequence of (call kind, size class, outcome).
    pub sig: u64,
    /// Set when the stream saw more calls than any terminating consumer could need.
    pub exceeded_cap: bool,
}

impl IoStats {
    pub fn note(&mut self, tag: u8, n: usize) {
        // Size class: exact below 16, then log2 bucket. Keeps the signature about *shape*.
        let class = if n < 16 { n as u64 } else { 64 + (usize::BITS - n.leading_zeros()) as u64 };
        let mut h = if self.sig == 0 { 0xcbf2_9ce4_8422_2325 } else { self.sig };
        h ^= tag as u64; h = h.wrapping_mul(0x0000_0100_0000_01B3);
        h ^= class; h = h.wrapping_mul(0x0000_0100_0000_01B3);
        self.sig = h;
    }
}

pub struct SimReader<'a> {
    data: &'a [u8],
    pos: usize,
    plan: ReadPlan,
    pub stats: IoStats,
    cap: u64,
}

impl<'a> SimReader<'a> {
    pub fn new(data: &'a [u8], plan: ReadPlan) -> SimReader<'a> {
        // A consumer that makes progress needs at most one call per byte, plus one per
        // interruption, plus a bounded number of calls that hit EOF / an error.
        let cap = data.len() as u64 + plan.eintr.len() as u64 + 64;
        SimReader { data, pos: 0, plan, stats: IoStats::default(), cap }
    }

    /// Bytes handed out so far.
    pub fn position(&self) -> usize {
        self.pos
    }

    pub fn remaining(&self) -> usize {
        self.data.len() - self.pos
    }
}

impl<'a> Read for SimReader<'a> {
    fn read(&mut self, buf: &mut [u8]) -> io::Result<usize> {
        if buf.is_empty() {
            return Ok(0);
        }
        let call = self.stats.calls;
        self.stats.calls += 1;
        if self.stats.calls > self.cap {
            // Bounded liveness: stop feeding a consumer that does not terminate.
            self.stats.exceeded_cap = true;
            return Err(io::Error::new(ErrorKind::Other, "sdsim: step cap exceeded"));
        }
        if self.plan.eintr.binary_search(&call).is_ok() {
            self.stats.eintr += 1;
            self.stats.note(b'i', 0);
            return Err(io::Error::new(ErrorKind::Interrupted, SIM_MSG));
        }
        let mut end = self.data.len();
        match self.plan.fault {
            Some(ReadFault::Eof(k)) => { end = end.min(k); },
            Some(ReadFault::Err(k, kind)) => {
                if self.pos >= k {
                    self.stats.err += 1;
                    self.stats.note(b'e', 0);
                    return Err(kind.error());
                }
                end = end.min(k);
            },
            None => {},
        }
        if self.pos >= end {
            self.stats.eof += 1;
            self.stats.note(b'z', 0);
            return Ok(0);
        }
        let limit = self.plan.chunk.limit(call, self.pos);
        let n = buf.len().min(end - self.pos).min(limit);
        buf[..n].copy_from_slice(&self.data[self.pos..self.pos + n]);
        self.pos += n;
        if n < buf.len() {
            self.stats.short += 1;
        }
        self.stats.note(if n < buf.len() { b's' } else { b'r' }, n);
        Ok(n)
    }
}

//-----------------------------------------------------------------------------

#[derive(Clone, Debug, Serialize, Deserialize, PartialEq, Eq)]
pub enum WriteFault {
    /// `write` returns `Ok(0)` once this many bytes were accepted (W3). Sticky.
    Zero(usize),
    /// `write` fails with this kind once this many bytes were accepted (W4). Sticky.
    Err(usize, Kind),
}

#[derive(Clone, Debug, Serialize, Deserialize, PartialEq, Eq)]
pub struct WritePlan {
    pub chunk: Chunk,
    pub eintr: Vec<u64>,
    pub fault: Option<WriteFault>,
    /// The sink implements `write_vectored` itself (like a file or a slice does): one call may take bytes from
    /// several buffers and stop anywhere. Otherwise the default (first non-empty buffer only) applies.
    #[serde(default)]
    pub vectored: bool,
}

impl WritePlan {
    pub fn plain() -> WritePlan {
        WritePlan { chunk: Chunk::Unbounded, eintr: Vec::new(), fault: None, vectored: false }
    }

    pub fn generate(rng: &mut Rng, approx_calls: u64) -> WritePlan {
        WritePlan { chunk: Chunk::generate(rng), eintr: gen_eintr(rng, approx_calls), fault: None, vectored: rng.chance(1, 3) }
    }
}

pub struct SimWriter {
    pub data: Vec<u8>,
    plan: WritePlan,
    pub stats: IoStats,
    cap: u64,
}

impl SimWriter {
    pub fn new(plan: WritePlan, expected_bytes: usize) -> SimWriter {
        let cap = expected_bytes as u64 + plan.eintr.len() as u64 + 64;
        SimWriter { data: Vec::with_capacity(expected_bytes), plan, stats: IoStats::default(), cap }
    }

    pub fn position(&self) -> usize {
        self.data.len()
    }
}

impl Write for SimWriter {
    fn write(&mut self, buf: &[u8]) -> io::Result<usize> {
        if buf.is_empty() {
            return Ok(0);
        }
        let call = self.stats.calls;
        self.stats.calls += 1;
        if self.stats.calls > self.cap {
            self.stats.exceeded_cap = true;
            return Err(io::Error::new(ErrorKind::Other, "sdsim: step cap exceeded"));
        }
        if self.plan.eintr.binary_search(&call).is_ok() {
            self.stats.eintr += 1;
            self.stats.note(b'i', 0);
            return Err(io::Error::new(ErrorKind::Interrupted, SIM_MSG));
        }
        let pos = self.data.len();
        let mut room = usize::MAX;
        match self.plan.fault {
            Some(WriteFault::Zero(k)) => {
                if pos >= k {
                    self.stats.zero += 1;
                    self.stats.note(b'0', 0);
                    return Ok(0);
                }
                room = k - pos;
            },
            Some(WriteFault::Err(k, kind)) => {
                if pos >= k {
                    self.stats.err += 1;
                    self.stats.note(b'e', 0);
                    return Err(kind.error());
                }
                room = k - pos;
            },
            None => {},
        }
        let limit = self.plan.chunk.limit(call, pos);
        let n = buf.len().min(room).min(limit);
        self.data.extend_from_slice(&buf[..n]);
        if n < buf.len() {
            self.stats.short += 1;
        }
        self.stats.note(if n < buf.len() { b's' } else { b'w' }, n);
        Ok(n)
    }

    fn write_vectored(&mut self, bufs: &[io::IoSlice<'_>]) -> io::Result<usize> {
        if !self.plan.vectored {
            // What std does for a type that only implements `write`.
            let first = bufs.iter().find(|b| !b.is_empty()).map_or(&[][..], |b| &**b);
            return self.write(first);
        }
        // Natively vectored: the buffers are one logical byte string; chunking and faults apply to it as a whole.
        let joined: Vec<u8> = bufs.iter().flat_map(|b| b.iter().cloned()).collect();
        self.stats.note(b'v', bufs.len());
        self.write(&joined)
    }

    fn flush(&mut self) -> io::Result<()> {
        Ok(())
    }
}
