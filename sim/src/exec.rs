//! Executing scenarios: in this process, or in a child process that may crash.

use std::io::{BufRead, BufReader, Write};
use std::process::{Child, ChildStdin, Command, Stdio};

use crate::core::{Outcome, Violation};
use crate::scenario::Scenario;
use crate::scratch;

pub struct ChildWorker {
    prop: String,
    child: Option<(Child, ChildStdin, std::sync::mpsc::Receiver<String>)>,
    pub crashes: u64,
}

impl ChildWorker {
    pub fn new(prop: &str) -> ChildWorker {
        ChildWorker { prop: prop.to_string(), child: None, crashes: 0 }
    }

    fn spawn(&mut self) -> Result<(), String> {
        let exe = std::env::current_exe().map_err(|e| e.to_string())?;
        let mut child = Command::new(exe)
            .arg("worker").arg(&self.prop)
            .stdin(Stdio::piped()).stdout(Stdio::piped()).stderr(Stdio::null())
            .spawn().map_err(|e| format!("cannot spawn worker: {}", e))?;
        let stdin = child.stdin.take().unwrap();
        let stdout = BufReader::new(child.stdout.take().unwrap());
        // A reader thread, so that waiting for the reply can time out.
        let (tx, rx) = std::sync::mpsc::channel::<String>();
        std::thread::spawn(move || { for line in stdout.lines() { match line { Ok(l) => if tx.send(l).is_err() { break; }, Err(_) => break } } });
        self.child = Some((child, stdin, rx));
        Ok(())
    }

    /// Runs one scenario in the child. A crash or a hang of the child is reported as a violation.
    pub fn run(&mut self, scn: &Scenario) -> Outcome {
        if self.child.is_none() {
            if let Err(e) = self.spawn() { return Outcome::default().fail(Violation::new(&self.prop, "harness", "spawn", e)); }
        }
        let limit = std::env::var("VERIF_HANG_SECS").ok().and_then(|s| s.parse::<u64>().ok()).unwrap_or(60);
        let line = serde_json::to_string(scn).expect("scenario serializes");
        let (child, stdin, rx) = self.child.as_mut().unwrap();
        let sent = writeln!(stdin, "{}", line).and_then(|_| stdin.flush());
        let mut hung = false;
        if sent.is_ok() {
            loop {
                match rx.recv_timeout(std::time::Duration::from_secs(limit)) {
                    // A heartbeat: the scenario is slow but advancing; wait on.
                    Ok(reply) if reply.trim_end() == "H" => continue,
                    Ok(reply) => { if let Ok(o) = serde_json::from_str::<Outcome>(reply.trim_end()) { return o; } },
                    Err(std::sync::mpsc::RecvTimeoutError::Timeout) => { hung = true; },
                    Err(_) => {},
                }
                break;
            }
        }
        // The child died, hung, or produced garbage: collect its status and clean up after it.
        let pid = child.id();
        let _ = child.kill();
        let status = child.wait();
        self.child = None;
        self.crashes += 1;
        scratch::cleanup_pid(pid);
        if hung {
            return Outcome::default().fail(Violation::new(&self.prop, "hang", scn.kind(), format!("the scenario did not finish within {} s and was killed", limit)));
        }
        let how = match status {
            Ok(st) => {
                use std::os::unix::process::ExitStatusExt;
                match st.signal() { Some(sig) => format!("killed by signal {}", sig), None => format!("exit status {:?}", st.code()) }
            },
            Err(e) => format!("wait failed: {}", e),
        };
        let (clause, site) = crash_site(scn);
        Outcome::default().fail(Violation::new(&self.prop, clause, site, format!("the process running the scenario died ({}); memory outside a valid mapping was touched or an abort was raised", how)))
    }
}

impl Drop for ChildWorker {
    fn drop(&mut self) {
        if let Some((mut child, stdin, _rx)) = self.child.take() {
            drop(stdin);
            let _ = child.wait();
        }
    }
}

fn crash_site(scn: &Scenario) -> (&'static str, &'static str) {
    ("crash", scn.kind())
}

/// Child side: one JSON scenario per input line, one JSON outcome per output line.
pub fn worker_main(prop: &str) {
    if prop == "C20" { crate::core::start_heartbeat(); }
    let stdin = std::io::stdin();
    let stdout = std::io::stdout();
    for line in stdin.lock().lines() {
        let line = match line { Ok(l) => l, Err(_) => break };
        if line.trim().is_empty() { continue; }
        let outcome = match serde_json::from_str::<Scenario>(&line) {
            Ok(scn) => scn.run(prop),
            Err(e) => Outcome::default().fail(Violation::new(prop, "harness", "parse", e.to_string())),
        };
        let mut out = stdout.lock();
        let _ = writeln!(out, "{}", serde_json::to_string(&outcome).unwrap());
        let _ = out.flush();
    }
    scratch::cleanup();
}

/// Runs a scenario where it belongs.
pub struct Executor {
    prop: String,
    child: ChildWorker,
}

impl Executor {
    pub fn new(prop: &str) -> Executor {
        Executor { prop: prop.to_string(), child: ChildWorker::new(prop) }
    }

    /// Triage (narrowing, shrinking, replay) always uses the child: a candidate may crash.
    pub fn run(&mut self, scn: &Scenario) -> Outcome {
        let _ = &self.prop;
        self.child.run(scn)
    }

    pub fn crashes(&self) -> u64 {
        self.child.crashes
    }
}
