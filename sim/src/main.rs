//! sdsim — deterministic simulation with fault injection for simple-sds.
//!
//!   sdsim run <PROP> [--tier quick|thorough] [--seed N] [--jobs N] [--count N] [--root DIR] [--log FILE]
//!   sdsim replay <FILE> [--root DIR]
//!   sdsim worker <PROP>            (internal: child process for scenarios that may crash)
//!
//! Exit status: 0 the property held on everything explored; 1 a violation was found (a line
//! `VIOLATION property=<id> replay=<path>` is printed); 2 the harness itself failed.

mod content;
mod core;
mod engines;
mod exec;
mod payload;
mod rng;
mod scenario;
mod scratch;
mod simfs;
mod simio;

use serde::{Deserialize, Serialize};
use serde_json::json;
use std::collections::BTreeMap;
use std::path::{Path, PathBuf};
use std::sync::Mutex;
use std::time::Instant;

use crate::core::{Stats, Violation};
use crate::exec::Executor;
use crate::rng::{fnv, mix, Rng};
use crate::scenario::{budget, generate, Scenario, Tier};

const DEFAULT_SEED: u64 = 20261004;

#[derive(Serialize, Deserialize)]
struct ReplayFile {
    property: String,
    seed: u64,
    index: u64,
    tier: String,
    violation: Violation,
    shrink_steps: u64,
    scenario: Scenario,
    original_scenario: Scenario,
}

struct Args {
    cmd: String,
    target: String,
    tier: Tier,
    seed: u64,
    jobs: usize,
    count: Option<u64>,
    start: u64,
    stride: u64,
    root: PathBuf,
    out: Option<PathBuf>,
    log: Option<PathBuf>,
}

fn parse_args() -> Args {
    let argv: Vec<String> = std::env::args().collect();
    if argv.len() < 3 { eprintln!("usage: sdsim run|replay|worker <target> [options]"); std::process::exit(2); }
    let mut a = Args {
        cmd: argv[1].clone(), target: argv[2].clone(),
        tier: match std::env::var("VERIF_TIER").ok().as_deref() { Some("thorough") => Tier::Thorough, _ => Tier::Quick },
        seed: std::env::var("VERIF_SEED").ok().and_then(|s| s.parse::<u64>().ok()).unwrap_or(DEFAULT_SEED),
        jobs: std::thread::available_parallelism().map(|n| n.get()).unwrap_or(4).min(16),
        count: None, start: 0, stride: 1, root: PathBuf::from("/verif"), out: None, log: None,
    };
    let mut i = 3;
    while i < argv.len() {
        let val = argv.get(i + 1).cloned().unwrap_or_default();
        match argv[i].as_str() {
            "--tier" => { a.tier = if val == "thorough" { Tier::Thorough } else { Tier::Quick }; i += 1; },
            "--seed" => { a.seed = val.parse().unwrap_or(DEFAULT_SEED); i += 1; },
            "--jobs" => { a.jobs = val.parse().unwrap_or(1).max(1); i += 1; },
            "--count" => { a.count = val.parse().ok(); i += 1; },
            "--start" => { a.start = val.parse().unwrap_or(0); i += 1; },
            "--stride" => { a.stride = val.parse().unwrap_or(1).max(1); i += 1; },
            "--root" => { a.root = PathBuf::from(val); i += 1; },
            "--out" => { a.out = Some(PathBuf::from(val)); i += 1; },
            "--log" => { a.log = Some(PathBuf::from(val)); i += 1; },
            other => { eprintln!("sdsim: unknown option {}", other); std::process::exit(2); },
        }
        i += 1;
    }
    a
}

fn main() {
    core::install_panic_hook();
    let args = parse_args();
    let code = match args.cmd.as_str() {
        "worker" => { exec::worker_main(&args.target); 0 },
        "slice" => slice_main(&args),
        "run" => run_property(&args),
        "replay" => replay(&args),
        _ => { eprintln!("sdsim: unknown command {}", args.cmd); 2 },
    };
    scratch::cleanup();
    std::process::exit(code);
}

//-----------------------------------------------------------------------------
// Known findings

struct Known {
    open: Vec<(String, String, String, String)>,
}

fn load_known(root: &Path) -> Known {
    let mut open = Vec::new();
    if let Ok(text) = std::fs::read_to_string(root.join("known_findings.txt")) {
        for line in text.lines() {
            let line = line.trim();
            if let Some(rest) = line.strip_prefix("open:") {
                let mut prop = String::new(); let mut clause = String::new(); let mut site = String::new(); let mut what = Vec::new();
                for tok in rest.split_whitespace() {
                    if let Some(v) = tok.strip_prefix("property=") { prop = v.to_string(); }
                    else if let Some(v) = tok.strip_prefix("clause=") { clause = v.to_string(); }
                    else if let Some(v) = tok.strip_prefix("site=") { site = v.to_string(); }
                    else { what.push(tok); }
                }
                open.push((prop, clause, site, what.join(" ")));
            }
            // `fixed:` lines suppress nothing.
        }
    }
    Known { open }
}

impl Known {
    fn matches(&self, v: &Violation) -> Option<&str> {
        self.open.iter().find(|(p, c, s, _)| *p == v.property && *c == v.clause && *s == v.site).map(|k| k.3.as_str())
    }
}

//-----------------------------------------------------------------------------
// Running a property

#[derive(Default, Serialize, Deserialize)]
struct WorkerResult {
    stats: Stats,
    scenarios: u64,
    kinds: BTreeMap<String, u64>,
    violations: Vec<(u64, Scenario, Violation)>,
    log: Vec<(u64, u64, u64)>,
    samples: Vec<(u64, Scenario)>,
}

fn scenario_at(prop: &str, tier: Tier, seed: u64, index: u64) -> Scenario {
    let mut rng = Rng::new(mix(&[seed, fnv(prop.as_bytes()), index]));
    generate(prop, tier, &mut rng, index)
}

/// A slice process: executes indices start, start+stride, ... in this (single-threaded) process.
/// Protocol on stdout: `S <index>` before each scenario, `R <json>` with the aggregated results of a
/// chunk, `E` at the end. If the process dies, the supervisor knows which scenario was running.
fn slice_main(args: &Args) -> i32 {
    use std::io::Write;
    let prop = args.target.as_str();
    let count = args.count.unwrap_or(0);
    let want_log = args.log.is_some();
    // Runaway allocations abort here instead of pushing the machine into swap.
    unsafe {
        let mut lim = libc::rlimit { rlim_cur: 0, rlim_max: 0 };
        libc::getrlimit(libc::RLIMIT_AS, &mut lim);
        let want: libc::rlim_t = 24 << 30;
        lim.rlim_cur = if lim.rlim_max == libc::RLIM_INFINITY { want } else { want.min(lim.rlim_max) };
        libc::setrlimit(libc::RLIMIT_AS, &lim);
    }
    // Only where scenarios can be slow and advancing (millions of calls). Elsewhere the process stays single-threaded:
    // an extra thread's stack changes what lies next to a mapping, and with it how memory errors show.
    if prop == "C20" { core::start_heartbeat(); }
    let out = std::io::stdout();
    let mut r = WorkerResult::default();
    let mut since = Instant::now();
    let mut i = args.start;
    while i < count {
        { let mut o = out.lock(); let _ = writeln!(o, "S {}", i); let _ = o.flush(); }
        let scn = scenario_at(prop, args.tier, args.seed, i);
        let outcome = scn.run(prop);
        r.scenarios += 1;
        *r.kinds.entry(scn.kind().to_string()).or_insert(0) += 1;
        if want_log {
            let sh = fnv(serde_json::to_string(&scn).unwrap().as_bytes());
            let oh = fnv(serde_json::to_string(&outcome).unwrap().as_bytes());
            r.log.push((i, sh, oh));
        }
        if i < 3 * args.stride.max(1) && r.samples.len() < 3 { r.samples.push((i, scn.clone())); }
        r.stats.merge(&outcome.stats);
        if let Some(v) = outcome.violation { if r.violations.len() < 16 { r.violations.push((i, scn, v)); } }
        i += args.stride.max(1);
        // "In one process" starts from a new process for every history of C20: the library's name counter is
        // process-wide state, and a history that begins with it at zero is also what a replay sees.
        if prop == "C20" && i < count {
            let mut o = out.lock();
            let _ = writeln!(o, "R {}", serde_json::to_string(&r).unwrap());
            let _ = writeln!(o, "N {}", i);
            let _ = o.flush();
            return 0;
        }
        if r.scenarios >= 20_000 || since.elapsed().as_secs() >= 5 {
            { let mut o = out.lock(); let _ = writeln!(o, "R {}", serde_json::to_string(&r).unwrap()); let _ = o.flush(); }
            r = WorkerResult::default();
            since = Instant::now();
        }
    }
    let mut o = out.lock();
    let _ = writeln!(o, "R {}", serde_json::to_string(&r).unwrap());
    let _ = writeln!(o, "E");
    let _ = o.flush();
    0
}

/// Supervises one slice: restarts it after a crash or a hang, recording the scenario that was running.
fn supervise_slice(args: &Args, prop: &str, count: u64, slice: u64, stride: u64, tier_name: &str) -> (WorkerResult, u64) {
    use std::io::{BufRead, BufReader};
    use std::process::{Command, Stdio};
    use std::sync::atomic::{AtomicU64, Ordering};
    use std::sync::Arc;
    let mut total = WorkerResult::default();
    let mut crashes = 0u64;
    let mut next_start = slice;
    let exe = std::env::current_exe().expect("current_exe");
    while next_start < count {
        let mut cmd = Command::new(&exe);
        cmd.arg("slice").arg(prop).arg("--tier").arg(tier_name).arg("--seed").arg(args.seed.to_string())
            .arg("--count").arg(count.to_string()).arg("--start").arg(next_start.to_string()).arg("--stride").arg(stride.to_string())
            .stdin(Stdio::null()).stdout(Stdio::piped()).stderr(Stdio::null());
        if args.log.is_some() { cmd.arg("--log").arg("-"); }
        let mut child = match cmd.spawn() { Ok(c) => c, Err(e) => {
            total.violations.push((next_start, scenario_at(prop, args.tier, args.seed, next_start), Violation::new(prop, "harness", "spawn", e.to_string())));
            return (total, crashes);
        } };
        let pid = child.id();
        let stdout = BufReader::new(child.stdout.take().unwrap());
        // Watchdog: a scenario that makes no progress for this long is killed and reported as a hang.
        let beat = Arc::new(AtomicU64::new(0));
        let done = Arc::new(std::sync::atomic::AtomicBool::new(false));
        let hung = Arc::new(std::sync::atomic::AtomicBool::new(false));
        let watchdog = { let beat = beat.clone(); let done = done.clone(); let hung = hung.clone(); std::thread::spawn(move || {
            let limit = std::env::var("VERIF_HANG_SECS").ok().and_then(|s| s.parse::<u64>().ok()).unwrap_or(300);
            let mut last = 0u64; let mut idle = 0u64;
            while !done.load(Ordering::Relaxed) {
                std::thread::sleep(std::time::Duration::from_millis(500));
                let b = beat.load(Ordering::Relaxed);
                if b != last { last = b; idle = 0; } else { idle += 1; }
                if idle >= 2 * limit { hung.store(true, Ordering::Relaxed); unsafe { libc::kill(pid as i32, libc::SIGKILL); } break; }
            }
        }) };
        let mut in_flight: Option<u64> = None;
        let mut ended = false;
        let mut planned_next: Option<u64> = None;
        for line in stdout.lines() {
            let line = match line { Ok(l) => l, Err(_) => break };
            beat.fetch_add(1, Ordering::Relaxed);
            if let Some(rest) = line.strip_prefix("S ") { in_flight = rest.trim().parse().ok(); }
            else if let Some(rest) = line.strip_prefix("R ") {
                if let Ok(r) = serde_json::from_str::<WorkerResult>(rest) {
                    total.stats.merge(&r.stats); total.scenarios += r.scenarios;
                    for (k, n) in r.kinds { *total.kinds.entry(k).or_insert(0) += n; }
                    total.violations.extend(r.violations); total.log.extend(r.log); total.samples.extend(r.samples);
                }
            } else if line.trim() == "E" { ended = true; }
            else if let Some(rest) = line.strip_prefix("N ") { planned_next = rest.trim().parse().ok(); }
        }
        let status = child.wait();
        done.store(true, Ordering::Relaxed);
        let _ = watchdog.join();
        scratch::cleanup_pid(pid);
        if ended { break; }
        // A planned restart: the slice asked to be continued in a new process.
        if let Some(n) = planned_next { if !hung.load(Ordering::Relaxed) { next_start = n; continue; } }
        // The slice died while running `in_flight`.
        crashes += 1;
        let index = in_flight.unwrap_or(next_start);
        let scn = scenario_at(prop, args.tier, args.seed, index);
        let how = match status {
            Ok(st) => { use std::os::unix::process::ExitStatusExt; match st.signal() { Some(sig) => format!("killed by signal {}", sig), None => format!("exit status {:?}", st.code()) } },
            Err(e) => format!("wait failed: {}", e),
        };
        let (clause, msg) = if hung.load(Ordering::Relaxed) { ("hang", format!("the scenario made no progress and was killed by the watchdog ({})", how)) }
            else { ("crash", format!("the process running the scenario died ({}): memory outside a valid buffer or mapping was touched, an allocation ran away, or an abort was raised", how)) };
        if total.violations.len() < 64 { total.violations.push((index, scn.clone(), Violation::new(prop, clause, scn.kind(), msg))); }
        total.scenarios += 1;
        *total.kinds.entry(scn.kind().to_string()).or_insert(0) += 1;
        if args.log.is_some() { total.log.push((index, fnv(serde_json::to_string(&scn).unwrap().as_bytes()), fnv(clause.as_bytes()))); }
        next_start = index + stride;
        if crashes >= 50 { break; }
    }
    (total, crashes)
}

fn run_property(args: &Args) -> i32 {
    let prop = args.target.as_str();
    if !["C06", "C12", "C13", "C14", "C18", "C19", "C20"].contains(&prop) { eprintln!("sdsim: property {} is not served by this binary", prop); return 2; }
    let count = args.count.unwrap_or_else(|| budget(prop, args.tier));
    let tier_name = if args.tier == Tier::Thorough { "thorough" } else { "quick" };
    println!("sdsim: property={} tier={} VERIF_SEED={} scenarios={} jobs={}", prop, tier_name, args.seed, count, args.jobs);
    let start = Instant::now();
    let jobs = args.jobs.min(count.max(1) as usize).max(1);
    let results: Mutex<Vec<(WorkerResult, u64)>> = Mutex::new(Vec::new());
    std::thread::scope(|scope| {
        for wi in 0..jobs {
            let results = &results;
            scope.spawn(move || {
                let r = supervise_slice(args, prop, count, wi as u64, jobs as u64, tier_name);
                results.lock().unwrap().push(r);
            });
        }
    });
    let mut results = results.into_inner().unwrap();
    let mut stats = Stats::default();
    let mut scenarios = 0u64;
    let mut kinds: BTreeMap<String, u64> = BTreeMap::new();
    let mut violations: Vec<(u64, Scenario, Violation)> = Vec::new();
    let mut log: Vec<(u64, u64, u64)> = Vec::new();
    let mut samples: Vec<(u64, Scenario)> = Vec::new();
    let mut crashes = 0u64;
    for (r, c) in results.drain(..) {
        stats.merge(&r.stats); scenarios += r.scenarios; crashes += c;
        for (k, n) in r.kinds { *kinds.entry(k).or_insert(0) += n; }
        violations.extend(r.violations); log.extend(r.log); samples.extend(r.samples);
    }
    violations.sort_by_key(|v| v.0);
    log.sort_unstable();
    samples.sort_by_key(|s| s.0);
    samples.truncate(3);
    if let Some(path) = &args.log {
        let mut text = String::new();
        for (i, s, o) in log.iter() { text.push_str(&format!("{} {:016x} {:016x}\n", i, s, o)); }
        let _ = std::fs::write(path, text);
    }
    let explore_s = start.elapsed().as_secs_f64();

    // Triage: one report per distinct failure.
    let known = load_known(&args.root);
    let mut seen: Vec<(String, String, String)> = Vec::new();
    let mut reported = 0u64;
    let mut known_hits = 0u64;
    let mut harness_errors = 0u64;
    let mut exec = Executor::new(prop);
    for (index, scn, viol) in violations.iter() {
        if seen.contains(&viol.key()) { continue; }
        seen.push(viol.key());
        if viol.is_harness() {
            println!("HARNESS-ERROR property={} index={} site={} {}", prop, index, viol.site, viol.message);
            harness_errors += 1;
            continue;
        }
        if let Some(what) = known.matches(viol) {
            println!("KNOWN-FINDING: property={} clause={} site={} {}", prop, viol.clause, viol.site, what);
            known_hits += 1;
            continue;
        }
        if reported >= std::env::var("VERIF_TRIAGE_MAX").ok().and_then(|s| s.parse::<u64>().ok()).unwrap_or(6) { continue; }
        let (min, min_viol, steps) = minimise(&mut exec, prop, scn, viol);
        let file = ReplayFile { property: prop.to_string(), seed: args.seed, index: *index, tier: tier_name.to_string(), violation: min_viol.clone(), shrink_steps: steps, scenario: min, original_scenario: scn.clone() };
        let dir = args.out.clone().unwrap_or_else(|| args.root.clone()).join("replays");
        let _ = std::fs::create_dir_all(&dir);
        let path = dir.join(format!("{}-{}-{}-{}.json", prop, sanitize(&min_viol.clause), args.seed, index));
        if let Err(e) = std::fs::write(&path, serde_json::to_string_pretty(&file).unwrap()) { println!("HARNESS-ERROR cannot write {}: {}", path.display(), e); harness_errors += 1; continue; }
        // The minimised file must reproduce in a fresh process.
        match confirm(&path, &args.root, prop) {
            Ok(true) => {
                println!("violation: property={} clause={} site={} seed={} index={} shrink_steps={}", prop, min_viol.clause, min_viol.site, args.seed, index, steps);
                println!("  {}", min_viol.message);
                println!("VIOLATION property={} replay={}", prop, path.display());
                reported += 1;
            },
            Ok(false) if min_viol.clause == "hang" => {
                // The watchdog fired, but the scenario terminates when run on its own: it was slow (a loaded machine), not stuck.
                println!("note: scenario {} exceeded the no-progress limit during the batch but completes on its own; not a violation ({})", index, path.display());
                let _ = std::fs::remove_file(&path);
            },
            Ok(false) => { println!("HARNESS-ERROR property={} replay {} did not reproduce in a fresh process (clause {} site {})", prop, path.display(), min_viol.clause, min_viol.site); harness_errors += 1; },
            Err(e) => { println!("HARNESS-ERROR property={} cannot run replay: {}", prop, e); harness_errors += 1; },
        }
    }
    let wall = start.elapsed().as_secs_f64();

    // Evidence.
    let distinct = stats.sigs.distinct();
    let level = match prop { "C13" | "C14" => "fault_enumeration", _ => "exploration" };
    let expected = expected_probes(prop);
    let zero: Vec<&str> = expected.iter().filter(|p| !stats.probes.contains_key(**p)).cloned().collect();
    for z in zero.iter() { println!("note: probe never hit in this run: {}", z); }
    let evidence = json!({
        "property_id": prop,
        "tier": tier_name,
        "seed": args.seed,
        "level": level,
        "wall_s": (wall * 1000.0).round() / 1000.0,
        "violations": reported,
        "coverage": {
            "evaluations": stats.evaluations,
            "distinct_nontrivial": distinct,
            "rule": rule_text(prop),
            "samples": samples.iter().map(|(i, s)| json!({"index": i, "scenario": s})).collect::<Vec<_>>(),
            "scenarios": scenarios,
            "scenario_kinds": kinds,
            "simulated_steps": stats.steps,
            "simulated_time": "not applicable: the code under test has no clock or timer; the step unit is one I/O, mapping or synchronisation call",
            "runs_per_hour": if explore_s > 0.0 { (stats.evaluations as f64 / explore_s * 3600.0).round() } else { 0.0 },
            "scenarios_per_hour": if explore_s > 0.0 { (scenarios as f64 / explore_s * 3600.0).round() } else { 0.0 },
            "faults_fired": stats.faults,
            "probes": stats.probes,
            "probes_never_hit": zero,
            "child_process_crashes": crashes,
            "known_findings_seen": known_hits,
            "harness_errors": harness_errors,
            "exhaustive": false,
            "exhaustive_per_structure": if level == "fault_enumeration" { "every fault point for structures up to ~4 KiB and mapped files up to 600 elements; larger ones (one scenario in a few hundred, one file in twelve) get every point near a chunk / page / structure boundary plus an even spread" } else { "n/a" },
            "real_vs_stub": real_vs_stub(prop),
            "jobs": jobs,
        },
        "assumptions": assumptions(prop),
    });
    let edir = args.out.clone().unwrap_or_else(|| args.root.clone()).join("evidence");
    let _ = std::fs::create_dir_all(&edir);
    let evidence = if prop == "C20" { merge_c20(&edir, evidence) } else { evidence };
    if let Err(e) = std::fs::write(edir.join(format!("{}.json", prop)), serde_json::to_string_pretty(&evidence).unwrap()) {
        println!("HARNESS-ERROR cannot write evidence: {}", e);
        harness_errors += 1;
    }
    println!("sdsim: property={} scenarios={} executions={} distinct_signatures={} steps={} faults={:?} violations={} known={} wall={:.1}s", prop, scenarios, stats.evaluations, distinct, stats.steps, stats.faults, reported, known_hits, wall);
    if reported > 0 { 1 } else if harness_errors > 0 { 2 } else { 0 }
}

/// C20 is decided by two engines: sdshuttle writes the evidence file first, this run (real threads
/// under a prescribed hand-over) adds its part to it.
fn merge_c20(edir: &Path, own: serde_json::Value) -> serde_json::Value {
    let existing = std::fs::read_to_string(edir.join("C20.json")).ok().and_then(|t| serde_json::from_str::<serde_json::Value>(&t).ok());
    let mut base = match existing { Some(b) if b.get("coverage").and_then(|c| c.get("configurations")).is_some() => b, _ => return own };
    let oc = own.get("coverage").cloned().unwrap_or(json!({}));
    let add = |a: &serde_json::Value, b: &serde_json::Value| json!(a.as_u64().unwrap_or(0) + b.as_u64().unwrap_or(0));
    if let Some(c) = base.get_mut("coverage").and_then(|c| c.as_object_mut()) {
        let ev = add(c.get("evaluations").unwrap_or(&json!(0)), oc.get("evaluations").unwrap_or(&json!(0)));
        let dn = add(c.get("distinct_nontrivial").unwrap_or(&json!(0)), oc.get("distinct_nontrivial").unwrap_or(&json!(0)));
        c.insert("evaluations".into(), ev);
        c.insert("distinct_nontrivial".into(), dn);
        c.insert("real_thread_volume_runs".into(), oc.clone());
        if let Some(r) = c.get("rule").and_then(|r| r.as_str()).map(|r| r.to_string()) {
            c.insert("rule".into(), json!(format!("{} PLUS real-thread runs: {}", r, oc.get("rule").and_then(|x| x.as_str()).unwrap_or(""))));
        }
    }
    let w = base.get("wall_s").and_then(|x| x.as_f64()).unwrap_or(0.0) + own.get("wall_s").and_then(|x| x.as_f64()).unwrap_or(0.0);
    let v = base.get("violations").and_then(|x| x.as_u64()).unwrap_or(0) + own.get("violations").and_then(|x| x.as_u64()).unwrap_or(0);
    base["wall_s"] = json!(w);
    base["violations"] = json!(v);
    base
}

fn sanitize(s: &str) -> String {
    s.chars().map(|c| if c.is_ascii_alphanumeric() || c == '-' { c } else { '_' }).collect()
}

/// Narrow to one fault point, then delta-debug while the same clause at the same site keeps failing.
fn minimise(exec: &mut Executor, prop: &str, scn: &Scenario, viol: &Violation) -> (Scenario, Violation, u64) {
    let key = viol.key();
    let started = Instant::now();
    // Wall-clock budget for shrinking one failure (VERIF_TRIAGE_SECS, default 180 s; two thirds of it for narrowing).
    let budget = std::env::var("VERIF_TRIAGE_SECS").ok().and_then(|s| s.parse::<u64>().ok()).unwrap_or(180);
    let mut cur = scn.clone();
    let mut cur_viol = viol.clone();
    let mut steps = 0u64;
    let mut attempts = 0u64;
    for cand in scn.narrow_candidates(prop) {
        attempts += 1;
        if let Some(v) = exec.run(&cand).violation { if v.key() == key { cur = cand; cur_viol = v; steps += 1; break; } }
        if started.elapsed().as_secs() > budget * 2 / 3 { break; }
    }
    loop {
        let mut improved = false;
        for cand in cur.simpler() {
            if attempts > 4000 || started.elapsed().as_secs() > budget { return (cur, cur_viol, steps); }
            attempts += 1;
            if let Some(v) = exec.run(&cand).violation {
                if v.key() == key { cur = cand; cur_viol = v; steps += 1; improved = true; break; }
            }
        }
        if !improved { break; }
    }
    (cur, cur_viol, steps)
}

fn confirm(path: &Path, root: &Path, prop: &str) -> Result<bool, String> {
    let exe = std::env::current_exe().map_err(|e| e.to_string())?;
    let out = std::process::Command::new(exe).arg("replay").arg(path).arg("--root").arg(root).output().map_err(|e| e.to_string())?;
    let text = String::from_utf8_lossy(&out.stdout);
    Ok(out.status.code() == Some(1) && text.contains(&format!("VIOLATION property={}", prop)))
}

fn replay(args: &Args) -> i32 {
    let text = match std::fs::read_to_string(&args.target) { Ok(t) => t, Err(e) => { println!("HARNESS-ERROR cannot read {}: {}", args.target, e); return 2; } };
    let file: ReplayFile = match serde_json::from_str(&text) { Ok(f) => f, Err(e) => { println!("HARNESS-ERROR cannot parse {}: {}", args.target, e); return 2; } };
    println!("sdsim: replay property={} seed={} index={} expected clause={} site={}", file.property, file.seed, file.index, file.violation.clause, file.violation.site);
    let mut exec = Executor::new(&file.property);
    let outcome = exec.run(&file.scenario);
    match outcome.violation {
        Some(v) if v.is_harness() => { println!("HARNESS-ERROR {} {}", v.site, v.message); 2 },
        Some(v) => {
            println!("violation: property={} clause={} site={}", v.property, v.clause, v.site);
            println!("  {}", v.message);
            if v.key() != file.violation.key() { println!("note: the recorded failure was clause={} site={}", file.violation.clause, file.violation.site); }
            println!("VIOLATION property={} replay={}", v.property, args.target);
            1
        },
        None => { println!("sdsim: replay ran clean: the recorded violation does not occur on this tree"); 0 },
    }
}

//-----------------------------------------------------------------------------
// Evidence texts

fn rule_text(prop: &str) -> &'static str {
    match prop {
        "C06" => "VERIF_SEED x property x index -> one RoundTrip scenario (1-6 payloads over all Serialize types, chunk/EINTR plans for writer and reader, optional file route). Non-trivial = a short transfer or an EINTR actually fired in the execution; distinct = distinct hash of the sequence of (call kind, size class, outcome) seen by the simulated stream.",
        "C12" => "one Writer scenario per index (writer kind, width, buffer size, parent header, push history, close/drop ending, short-write/EINTR plan). Non-trivial = a short write or EINTR fired; distinct = distinct hash of the sequence of file-system calls (kind, size class, outcome).",
        "C13" => "one MapViews scenario per index: a real file of 1-6 concatenated mappable structures, mapped; views at every structure offset, at 6 offsets outside the file, and on EVERY 8-byte truncation of the file (exhaustive per file up to 600 elements; one file in twelve is larger - several pages - and gets every cut near a structure or page boundary plus an even spread). An execution is one (file, truncation) mapping; distinct = distinct (cut position, file length, structure cut, structure count).",
        "C14" => "per index one structure or writer history; EVERY fault point is then executed: every byte position 0..size for load/skip truncation, read error, write error and Ok(0) sinks; every file-size limit, open, seek and write call for the writers; every 8-byte cut for mapped files; plus serialize_to/load_from on a failing simulated file system, real RLIMIT_FSIZE and /dev/full runs, and boundary-directed samples of fault points for a few structures of 0.5-1 MiB. evaluations counts executions (one per fault point); distinct = distinct I/O signatures among them (every execution has a fault that fired).",
        "C18" => "one MapLife scenario per index: 1-3 files (sizes around page boundaries, empty, odd, missing, sparse) and a history of map / read / write / drop with several maps alive, mmap refusal injected on chosen calls; /proc/self/maps checked after every step. distinct = distinct hash of the sequence of (op, mode, refusal, file class).",
        "C20" => "per index one NameVolume scenario: 2-5 REAL threads with 1..300000 calls each (thread-local or per-thread state is real here, unlike under shuttle); the scenario is an explicit schedule of steps (thread t makes k calls); a thread is spawned at its first step and joined right after its last one (thread-local destructors have run before the next step), so exactly one thread is runnable and the run replays exactly. distinct = distinct (call-volume class per thread, schedule length class, late start, exit while others alive).",
        "C19" => "per index a Supports history (enable_* / write / load / clone over a bitvector with an initial support subset), a Foreign file (composite written without support structures) or a Skip stream (prefix, Option<X>, sentinel). distinct = distinct I/O signature where a short read / EINTR fired, else distinct history shape.",
        _ => "",
    }
}

fn real_vs_stub(prop: &str) -> serde_json::Value {
    match prop {
        "C06" | "C19" => json!({"real": ["all serialize/load/skip/enable code of simple-sds", "library constructors"], "stub": ["the byte stream (SimReader/SimWriter)", "the file system behind serialize_to/load_from (SimFs via verif_io)", "C19: the foreign composer that strips support structures"]}),
        "C12" => json!({"real": ["RawVectorWriter", "IntVectorWriter", "RawVector/IntVector serialization (the oracle the statement names)"], "stub": ["std::fs::File/OpenOptions replaced by SimFs through the verif_io seam; a sample of scenarios is re-run on the real file system"]}),
        "C20" => json!({"real": ["serialize::temp_file_name with the std atomic", "real OS threads"], "stub": ["the scheduler: the harness thread starts, runs and joins the threads step by step"]}),
        "C13" | "C18" => json!({"real": ["MemoryMap, all MemoryMapped views", "kernel mmap/munmap", "real files"], "stub": ["only the injected MAP_FAILED (C18)"]}),
        "C14" => json!({"real": ["all library code", "kernel mmap for the torn-file clause"], "stub": ["byte streams", "SimFs for the writers"]}),
        _ => json!({}),
    }
}

fn assumptions(prop: &str) -> Vec<&'static str> {
    let mut v = vec!["sampling, not proof: a clean batch is evidence only", "built with opt-level 2, debug assertions and overflow checks on, target-cpu=native, cfg simple_sds_verif"];
    match prop {
        "C13" | "C18" => { v.push("Linux /proc/self/maps is the ground truth for the address space"); v.push("4 KiB pages"); },
        "C12" | "C14" => { v.push("SimFs models a file as a byte vector with POSIX write/seek semantics; validated against the real file system on a sample"); },
        _ => {},
    }
    v
}

fn expected_probes(prop: &str) -> Vec<&'static str> {
    match prop {
        "C06" => vec!["string above 32 MiB with characters across the 2^25-byte marks", "vector of more than 2731 three-word items", "nested Some(Some(..))", "None payload", "option of a structure that contains options", "byte payload with padding", "concatenated stream", "EINTR during load", "EINTR during serialize", "file route (serialize_to/load_from)", "single-element structure", "select support with long superblocks", "structure larger than 65536 elements", "load_from on a named pipe"],
        "C12" => vec!["buffer above 8 MiB", "whole buffer of zeros ending on a flush boundary", "flush with carried overflow", "flush with exactly full buffer", "final flush of an empty buffer", "zero pushes", "width 64", "push_int(_, 0)", "dropped while open", "close() called again after success", "buffer size 0", "parent header (close_with_header)", "real file system cross-check", "longer file already present", "writer dropped while the stack unwinds", "extend from an iterator that panics partway"],
        "C13" => vec!["raw vector of more than 2^32 bits mapped", "empty or tiny structure at end of file", "option holding an empty structure", "truncation exactly after a length element", "truncation inside a structure", "offsets outside the file requested", "file mapped through a symbolic link", "views created again after an in-place rewrite through the same map"],
        "C14" => vec!["fault exactly on an element boundary", "fault inside an element", "skip: fault after the length element", "sink fails on the first byte", "sink fails in the last element", "failure reported by a panicking push", "failure reported by close()", "failure reported by the constructor", "fault in a header write", "fault in a body write", "truncation inside a structure", "close() asked again after a reported failure"],
        "C18" => vec!["file names that are not UTF-8", "write-protected file (mode 0444)", "path with .. after a symbolic link to a directory", "file under somebody else's exclusive advisory lock", "several maps alive at once", "write through a mutable map", "file checked after dropping a mutable map", "map creation failed loudly", "map dropped", "file grown while a map of it is alive", "map dropped while the stack unwinds", "working directory removed, files named by relative paths"],
        "C20" => vec!["a thread with more than 65536 calls", "a thread started while others were already running", "a thread exited while others were still alive", "three or more threads alive at once", "names requested from a thread-local destructor at thread exit", "a thread with more than 2^20 calls", "name parts that spell a path", "more than 1024 threads in one process", "TMPDIR moved away and back while names were handed out", "name parts that look like format placeholders", "serialize::test run between the calls", "more than 2^24 names in one process"],
        "C19" => vec!["bitvector of more than 2^32 bits with select support written and loaded", "bitvector of more than 2^30 bits with rank support written and loaded", "two or more write/load steps in one history", "empty bitvector", "support structures actually removed", "foreign file loaded through load_from", "foreign composite inside an Option", "foreign sparse vector with a different low-part width", "embedded bitvectors written with different support subsets", "skip over a 3-level nested option", "skip over None", "EINTR while skipping or loading", "skip over a bitvector with supports", "absent_option written"],
        _ => vec![],
    }
}
