//! Engine `fssim`: the two buffered file writers against the simulated file system.
//!
//! One scenario type serves C12 (legal behaviours only; the file must be byte-identical to the
//! in-memory serialization) and C14 clauses f/g (failing faults; the failure must be reported).

use serde::{Deserialize, Serialize};
use std::path::PathBuf;

use simple_sds::int_vector::{IntVector, IntVectorWriter};
use simple_sds::ops::{Push, Vector};
use simple_sds::raw_vector::{PushRaw, RawVector, RawVectorWriter};
use simple_sds::serialize::Serialize as SdsSerialize;

use crate::content::{Content, Pat};
use crate::core::{catch, Outcome, Stats, Violation};
use crate::payload::gen_width;
use crate::rng::Rng;
use crate::simfs::{FsFault, FsPlan, FsSession};
use crate::simio::{Chunk, Kind, WRITE_KINDS};

#[derive(Clone, Copy, Debug, Serialize, Deserialize, PartialEq, Eq)]
pub enum WKind {
    Raw,
    Int,
}

#[derive(Clone, Debug, Serialize, Deserialize, PartialEq, Eq)]
pub enum WOp {
    /// Raw: `push_bit`.
    Bit(bool),
    /// Raw: `push_int(v, w)` with `w` in 0..=64.
    Int { v: u64, w: usize },
    /// Raw: `n` times `push_bit` (pattern from `salt`).
    Bits { n: usize, salt: u64 },
    /// Raw: `n` times `push_int(_, w)`.
    Ints { n: usize, w: usize, salt: u64 },
    /// Int: `push(v)`; the value may be wider than the item width.
    Push(u64),
    /// Int: `n` times `push`.
    PushN { n: usize, salt: u64 },
    /// Int: `extend` from a vector of u8 / u16 / u32 / u64 / usize (ity 0..4); `inexact`: through an
    /// iterator adapter whose size hint has lower bound 0.
    Extend { ity: u8, n: usize, salt: u64, #[serde(default)] inexact: bool },
    /// Int: `extend` from an iterator that yields `at` items and then panics (the caller's bug, caught by the
    /// caller): the writer must have counted and kept exactly those items.
    ExtendPanics { n: usize, at: usize, salt: u64 },
    Len,
    IsOpen,
    Close,
    /// The file is renamed on disk while the writer is (possibly) open; the writer owns the file, not the name.
    Rename,
}

impl WOp {
    fn is_push(&self) -> bool {
        !matches!(self, WOp::Len | WOp::IsOpen | WOp::Close | WOp::Rename)
    }
}

#[derive(Clone, Copy, Debug, Serialize, Deserialize, PartialEq, Eq)]
pub enum FaultFamily {
    /// F3: file size limit, every limit below the final size.
    Full,
    /// F1: every open call.
    Open,
    /// F2: every seek call.
    Seek,
    /// F4: every write call, once.
    WriteOnce,
    /// Every write call, from then on.
    WriteFrom,
}

#[derive(Clone, Debug, Serialize, Deserialize, PartialEq, Eq)]
pub enum WPoints {
    All,
    One(u64),
}

#[derive(Clone, Debug, Serialize, Deserialize, PartialEq, Eq)]
pub enum RealMode {
    /// Simulated file system.
    Sim,
    /// The real file system (validates the stub). With a `Full` fault the limit is a real RLIMIT_FSIZE.
    Plain,
    /// The real device /dev/full: every write fails with ENOSPC. The file is never removed.
    DevFull,
}

#[derive(Clone, Debug, Serialize, Deserialize)]
pub struct Writer {
    pub kind: WKind,
    /// Item width (Int only).
    pub width: usize,
    /// `None`: the constructor with the default buffer size. Bits for Raw, items for Int.
    pub buf_len: Option<usize>,
    /// Final values of the parent structure's header (Raw only; the placeholder has the same length).
    pub header: Vec<u64>,
    pub ops: Vec<WOp>,
    pub chunk: Chunk,
    pub eintr: Vec<u64>,
    pub fault: Option<(FaultFamily, Kind, WPoints)>,
    pub real: RealMode,
    /// Bytes of unrelated content already in the file when the writer is created (it must be overwritten completely).
    #[serde(default)]
    pub preexisting: usize,
    /// The writer goes out of scope because unrelated code panics while it is alive (the stack unwinds through it).
    #[serde(default)]
    pub unwind_drop: bool,
}

enum W {
    Raw(RawVectorWriter),
    Int(IntVectorWriter),
}

enum M {
    Raw(RawVector),
    Int(IntVector),
}

struct Trace {
    reported: Vec<String>,
    push_panicked: bool,
    closed_ok: bool,
    closes: u32,
    first_close_snapshot: Option<Vec<u8>>,
    flush_overflow: bool,
    flush_exact: bool,
    final_flush_empty: bool,
    dropped_open: bool,
    pushes: u64,
}

/// Bits 16.. of a salt choose the data class: 1 = all zero, 2 = all ones, otherwise pseudo-random
/// (and, for values, all ones for one salt in seven: wider than any width below 64).
fn rand_vals(n: usize, salt: u64) -> Vec<u64> {
    Content::new(n, match salt >> 16 { 1 => Pat::Zero, 2 => Pat::Ones, _ => if salt % 7 == 0 { Pat::Ones } else { Pat::Random } }, salt).words()
}

fn rand_bits(n: usize, salt: u64) -> Vec<u64> {
    Content::new(n, match salt >> 16 { 1 => Pat::Zero, 2 => Pat::Ones, _ => Pat::Random }, salt).bit_words()
}

fn gen_salt(rng: &mut Rng) -> u64 {
    let low = rng.next() & 0xFFFF;
    match rng.below(20) { 0 | 1 => (1 << 16) | low, 2 => (2 << 16) | low, _ => low }
}

impl Writer {
    /// A file-size limit on the real file system is a process-wide RLIMIT_FSIZE: run it in a child.
    pub fn needs_child(&self) -> bool {
        self.real == RealMode::Plain && self.fault.is_some()
    }

    /// Whole buffers of one value: `k` buffers of at least 4 KiB, some of them all zero (or all ones), the
    /// history ending exactly on a buffer boundary, one item before it or one after it.
    pub fn generate_uniform_buffers(rng: &mut Rng) -> Writer {
        let kind = if rng.bool() { WKind::Raw } else { WKind::Int };
        let width = if kind == WKind::Int { *rng.pick(&[1usize, 2, 8, 16, 32, 64, 64]) } else { 64 };
        let (buf_bits, buf_len): (usize, Option<usize>) = if rng.chance(1, 10) { (8 * 1024 * 1024, None) } else { let b = *rng.pick(&[32_768usize, 32_768, 65_536, 262_144]); (b, Some(if kind == WKind::Int { b / width } else { b })) };
        let k = rng.range_usize(1, 3);
        let mut ops = Vec::new();
        for i in 0..k {
            let class: u64 = if i + 1 == k { *rng.pick(&[1u64, 1, 1, 2, 0]) } else { *rng.pick(&[0u64, 0, 1, 2]) };
            let salt = (class << 16) | (rng.next() & 0xFFFF);
            match kind {
                WKind::Raw => if rng.bool() { ops.push(WOp::Ints { n: buf_bits / 64, w: 64, salt }) } else { ops.push(WOp::Ints { n: buf_bits / 32, w: 32, salt }) },
                WKind::Int => if rng.bool() { ops.push(WOp::PushN { n: buf_bits / width, salt }) } else { ops.push(WOp::Extend { ity: 3, n: buf_bits / width, salt, inexact: rng.bool() }) },
            }
        }
        match rng.below(6) {
            0 => { ops.pop(); let salt = (1u64 << 16) | 5; match kind { WKind::Raw => ops.push(WOp::Ints { n: buf_bits / 64 - 1, w: 64, salt }), WKind::Int => ops.push(WOp::PushN { n: buf_bits / width - 1, salt }) } },
            1 => ops.push(match kind { WKind::Raw => WOp::Bit(false), WKind::Int => WOp::Push(0) }),
            _ => {},
        }
        if rng.chance(1, 4) { ops.push(WOp::Len); }
        // A parent header obliges the parent to close the writer (close_with_header); otherwise close or plain drop.
        let header: Vec<u64> = if kind == WKind::Raw && rng.chance(1, 4) { vec![rng.wide()] } else { Vec::new() };
        let closes = if header.is_empty() { rng.below(3) } else { 1 + rng.below(2) };
        for _ in 0..closes { ops.push(WOp::Close); }
        Writer {
            kind, width, buf_len, header, ops,
            chunk: if rng.chance(1, 2) { Chunk::Unbounded } else { Chunk::generate(rng) },
            eintr: Vec::new(), fault: None,
            real: if rng.chance(1, 6) { RealMode::Plain } else { RealMode::Sim },
            preexisting: if rng.chance(1, 5) { *rng.pick(&[8usize, 4096, 100_000]) } else { 0 },
            unwind_drop: rng.chance(1, 6),
        }
    }

    /// Buffers of 9 to 18 MiB that really fill (or nearly fill): one flush of more than 2^20 words, more than
    /// 16 MiB pending at once, item widths that leave the buffer off a word boundary at that moment.
    pub fn generate_giant_buffer(rng: &mut Rng) -> Writer {
        let kind = if rng.bool() { WKind::Raw } else { WKind::Int };
        let width = if kind == WKind::Int { *rng.pick(&[31usize, 37, 7, 33, 64]) } else { 64 };
        let mib = *rng.pick(&[9usize, 12, 17, 18]);
        let buf_bits = mib * 8 * 1024 * 1024 + *rng.pick(&[0usize, 64, 1984]);
        let buf_len = Some(if kind == WKind::Int { buf_bits / width } else { buf_bits });
        let target = match rng.below(3) { 0 => buf_bits - rng.range_usize(1, 5000), 1 => buf_bits + rng.range_usize(0, 5000), _ => buf_bits + rng.range_usize(100_000, 3_000_000) };
        let mut ops = Vec::new();
        let mut bits = 0usize;
        while bits < target {
            let left = target - bits;
            match kind {
                WKind::Raw => {
                    let w = *rng.pick(&[31usize, 64, 13, 1]);
                    if w == 1 { let n = rng.range_usize(1, 200).min(left); ops.push(WOp::Bits { n, salt: rng.next() & 0xFFFF }); bits += n; }
                    else { let n = (rng.range_usize(1, 40_000_000) / w).min(left / w).max(1); ops.push(WOp::Ints { n, w, salt: rng.next() & 0xFFFF }); bits += n * w; }
                },
                WKind::Int => { let n = (rng.range_usize(1, 40_000_000) / width).min(left / width).max(1); ops.push(if rng.bool() { WOp::PushN { n, salt: rng.next() & 0xFFFF } } else { WOp::Extend { ity: 3, n, salt: rng.next() & 0xFFFF, inexact: rng.bool() } }); bits += n * width; },
            }
        }
        if rng.chance(1, 3) { ops.push(WOp::Len); }
        for _ in 0..rng.below(3) { ops.push(WOp::Close); }
        Writer {
            kind, width, buf_len, header: Vec::new(), ops,
            chunk: if rng.chance(2, 3) { Chunk::Unbounded } else { Chunk::Max(1 << 20) },
            eintr: Vec::new(), fault: None,
            real: if rng.chance(1, 8) { RealMode::Plain } else { RealMode::Sim },
            preexisting: 0,
            unwind_drop: rng.chance(1, 6),
        }
    }

    pub fn generate(rng: &mut Rng, faulty: bool, big: bool) -> Writer {
        if !faulty && rng.chance(1, 250) { return Writer::generate_uniform_buffers(rng); }
        if !faulty && rng.chance(1, 40_000) { return Writer::generate_giant_buffer(rng); }
        let kind = if rng.bool() { WKind::Raw } else { WKind::Int };
        let width = gen_width(rng);
        let unit = if kind == WKind::Int { width } else { 1 };
        // Target size of the pushed data in bits. Faulty runs enumerate every fault point, so they stay small.
        // A buffer above the 8 Mibit default that really fills is expensive (megabytes per history): rare.
        let above_default = !faulty && rng.chance(1, if big { 1500 } else { 6000 });
        let target_bits: usize = if faulty { *rng.pick(&[0usize, 64, 500, 3000, 9000, 20_000]) }
            else if above_default { 2 * 8 * 1024 * 1024 + rng.range_usize(64, 400_000) }
            else if big && rng.chance(1, 400) { 8 * 1024 * 1024 + rng.range_usize(0, 200_000) }
            else { *rng.pick(&[0usize, 1, 63, 64, 65, 200, 1000, 5000, 20_000, 70_000]) };
        let huge = target_bits > 1_000_000;
        let buf_len: Option<usize> = if above_default { Some(if kind == WKind::Int { 2 * 8 * 1024 * 1024 / width } else { 2 * 8 * 1024 * 1024 }) } else if huge || rng.chance(1, 12) { None } else {
            let w = unit;
            let choice = match rng.below(12) {
                0 => 0, 1 => 1, 2 => 63, 3 => 64, 4 => 65,
                5 => w.saturating_sub(1), 6 => w, 7 => w * rng.range_usize(1, 9),
                8 => (w * rng.range_usize(1, 9)).saturating_sub(1), 9 => w * rng.range_usize(1, 9) + 1,
                10 => rng.range_usize(0, 4096),
                _ => rng.range_usize(0, 700),
            };
            // Int buffers are given in items.
            Some(if kind == WKind::Int { match rng.below(4) { 0 => 0, 1 => 1, 2 => rng.range_usize(1, 40), _ => (choice / w.max(1)).min(600) } } else { choice })
        };
        let header: Vec<u64> = if kind == WKind::Raw && rng.chance(1, 3) { (0..rng.range_usize(1, 3)).map(|_| rng.wide()).collect() } else { Vec::new() };
        let mut ops: Vec<WOp> = Vec::new();
        let mut bits = 0usize;
        let mut guard = 0;
        while bits < target_bits && guard < 4000 {
            guard += 1;
            let left = target_bits - bits;
            match kind {
                WKind::Raw => match rng.below(10) {
                    0 | 1 => { ops.push(WOp::Bit(rng.bool())); bits += 1; },
                    2 | 3 | 4 => { let w = if rng.chance(1, 8) { *rng.pick(&[0usize, 1, 63, 64]) } else { rng.range_usize(0, 64) }; ops.push(WOp::Int { v: rng.next(), w }); bits += w; },
                    5 | 6 => { let n = rng.range_usize(1, left.min(if huge { 3_000_000 } else { 300 }).max(1)); ops.push(WOp::Bits { n, salt: gen_salt(rng) }); bits += n; },
                    _ => { let w = rng.range_usize(1, 64); let n = rng.range_usize(1, (left / w).min(if huge { 60_000 } else { 40 }).max(1)); ops.push(WOp::Ints { n, w, salt: gen_salt(rng) }); bits += n * w; },
                },
                WKind::Int => match rng.below(10) {
                    0 | 1 | 2 => { ops.push(WOp::Push(if rng.chance(1, 4) { rng.next() } else { rng.wide() })); bits += width; },
                    3 | 4 | 5 | 6 => { let n = rng.range_usize(1, (left / width).min(if huge { 100_000 } else { 60 }).max(1)); ops.push(WOp::PushN { n, salt: gen_salt(rng) }); bits += n * width; },
                    7 if !faulty && rng.chance(1, 4) => { let n = rng.range_usize(1, 60); let at = rng.range_usize(0, n); ops.push(WOp::ExtendPanics { n, at, salt: gen_salt(rng) }); bits += at * width; },
                    _ => { let n = rng.range_usize(0, (left / width).min(if huge { 100_000 } else { 60 }).max(1)); ops.push(WOp::Extend { ity: rng.below(5) as u8, n, salt: gen_salt(rng), inexact: rng.chance(1, 3) }); bits += n * width; },
                },
            }
            if rng.chance(1, 12) { ops.push(if rng.bool() { WOp::Len } else { WOp::IsOpen }); }
            if !faulty && !huge && rng.chance(1, 60) { ops.push(WOp::Rename); }
        }
        // Ending: explicit close(s) or plain drop. A parent header or a fault run needs an explicit close.
        let must_close = !header.is_empty() || faulty;
        let closes = if must_close { 1 + rng.below(2) } else { match rng.below(5) { 0 | 1 => 0, 2 | 3 => 1, _ => 2 + rng.below(2) } };
        for i in 0..closes {
            ops.push(WOp::Close);
            if i + 1 < closes || rng.chance(1, 3) { ops.push(if rng.bool() { WOp::Len } else { WOp::IsOpen }); }
            // Pushing into a closed writer cannot reach the file any more, but it is still counted by len().
            if !faulty && rng.chance(1, 8) {
                ops.push(match kind { WKind::Raw => if rng.bool() { WOp::Bit(rng.bool()) } else { WOp::Int { v: rng.next(), w: rng.range_usize(1, 64) } }, WKind::Int => if rng.bool() { WOp::Push(rng.wide()) } else { WOp::PushN { n: rng.range_usize(1, 9), salt: gen_salt(rng) } } });
                ops.push(WOp::Len);
            }
        }
        let fault = if faulty {
            let fam = *rng.pick(&[FaultFamily::Full, FaultFamily::Full, FaultFamily::Full, FaultFamily::WriteOnce, FaultFamily::WriteFrom, FaultFamily::Open, FaultFamily::Seek]);
            Some((fam, *rng.pick(&WRITE_KINDS), WPoints::All))
        } else { None };
        let kernel_fault = faulty && matches!(fault, Some((FaultFamily::Full, _, _))) && rng.chance(1, if big { 6 } else { 25 });
        let real = if (!faulty && rng.chance(1, 40)) || kernel_fault { RealMode::Plain } else if faulty && rng.chance(1, 60) { RealMode::DevFull } else { RealMode::Sim };
        Writer {
            kind, width, buf_len, header, ops,
            chunk: if rng.chance(1, 4) { Chunk::Unbounded } else { Chunk::generate(rng) },
            eintr: crate::simio::gen_eintr(rng, 40),
            fault, real,
            preexisting: if rng.chance(1, 5) { *rng.pick(&[1usize, 8, 24, 100, 4096, 100_000]) } else { 0 },
            unwind_drop: rng.chance(1, 6),
        }
    }

    fn effective_buf_bits(&self) -> usize {
        match self.buf_len {
            None => 8 * 1024 * 1024,
            Some(b) => { let bits = if self.kind == WKind::Int { b * self.width } else { b }; ((bits + 63) / 64 * 64).max(64) },
        }
    }

    /// Expected file content: parent header elements, then the in-memory serialization of the model.
    fn expected(&self) -> Result<(Vec<u8>, u64), String> {
        let mut m = match self.kind { WKind::Raw => M::Raw(RawVector::new()), WKind::Int => M::Int(IntVector::new(self.width).map_err(|e| e.to_string())?) };
        let mut pushes = 0u64;
        // What is pushed after the first close() is counted by len() but cannot reach the file.
        let mut closed = false;
        for op in self.ops.iter() {
            if *op == WOp::Close { closed = true; }
            if !closed { apply_model(&mut m, op, &mut pushes); }
        }
        let mut bytes: Vec<u8> = Vec::new();
        for h in self.header.iter() { bytes.extend_from_slice(&h.to_le_bytes()); }
        match &m { M::Raw(v) => v.serialize(&mut bytes), M::Int(v) => v.serialize(&mut bytes) }.map_err(|e| e.to_string())?;
        Ok((bytes, pushes))
    }

    /// One execution against one file system plan. Returns the final file bytes and the trace.
    fn execute(&self, prop: &str, plan: FsPlan, expected_len: usize, stats: &mut Stats) -> Result<(Option<Vec<u8>>, Trace), Violation> {
        let v = |clause: &str, site: &str, msg: String| Violation::new(prop, clause, site, msg);
        let site = match self.kind { WKind::Raw => "RawVectorWriter", WKind::Int => "IntVectorWriter" };
        let mut tr = Trace { reported: Vec::new(), push_panicked: false, closed_ok: false, closes: 0, first_close_snapshot: None, flush_overflow: false, flush_exact: false, final_flush_empty: false, dropped_open: false, pushes: 0 };
        let session: Option<FsSession>;
        #[allow(unused_assignments)]
        let mut path: PathBuf = PathBuf::new();
        let mut _limit: Option<FsizeLimit> = None;
        match self.real {
            RealMode::Sim => {
                let s = FsSession::start(plan, expected_len);
                // A path that is also valid on the real file system: code that reaches std::fs without going
                // through the seam (a fully qualified std::fs::File, say) must not fail for that reason alone.
                path = crate::scratch::file("simwriter");
                if self.preexisting > 0 { s.put(&path, vec![0xD7; self.preexisting]); }
                session = Some(s);
            },
            RealMode::Plain => {
                session = None; path = crate::scratch::file("writer");
                if self.preexisting > 0 { let _ = std::fs::write(&path, vec![0xD7u8; self.preexisting]); }
                match plan.fault {
                    None => {},
                    Some(FsFault::Full(k, _)) => { _limit = Some(FsizeLimit::set(k)); stats.fault("F3-full (real kernel, RLIMIT_FSIZE)", 1); },
                    Some(other) => return Err(v("harness", "writer", format!("fault {:?} cannot be injected into the real file system", other))),
                }
            },
            RealMode::DevFull => { session = None; path = PathBuf::from("/dev/full"); stats.fault("F3-full (real kernel, /dev/full)", 1); },
        }
        let read_file = |session: &Option<FsSession>, path: &PathBuf| -> Option<Vec<u8>> {
            match session {
                // If the simulated file system never saw an open, the code bypassed the seam and wrote a real file.
                Some(s) => if s.with(|st| st.counters.opens) == 0 && path.exists() { BYPASSED.with(|b| b.set(true)); std::fs::read(path).ok() } else { s.file(path) },
                None => if self.real == RealMode::DevFull { None } else { std::fs::read(path).ok() },
            }
        };
        stats.evaluations += 1;

        // Construction.
        let mut placeholder: Vec<u64> = vec![0; self.header.len()];
        let made = catch(|| match (self.kind, self.buf_len) {
            (WKind::Raw, None) => RawVectorWriter::new(&path, &mut placeholder).map(W::Raw),
            (WKind::Raw, Some(b)) => RawVectorWriter::with_buf_len(&path, &mut placeholder, b).map(W::Raw),
            (WKind::Int, None) => IntVectorWriter::new(&path, self.width).map(W::Int),
            (WKind::Int, Some(b)) => IntVectorWriter::with_buf_len(&path, self.width, b).map(W::Int),
        });
        let mut w = match made {
            Ok(Ok(w)) => w,
            Ok(Err(e)) => { tr.reported.push(format!("constructor: {}", e)); let f = read_file(&session, &path); finish(session, stats); if self.real == RealMode::Plain || BYPASSED.with(|b| b.replace(false)) { let _ = std::fs::remove_file(&path); } return Ok((f, tr)); },
            Err(p) => { finish(session, stats); return Err(v("constructor-panic", site, p)); },
        };

        // Operations, in lockstep with a bit-count model (for len() and the probes).
        let buf_bits = self.effective_buf_bits();
        let mut fill = 0usize;
        let mut len_model = 0usize; // bits for Raw, items for Int
        let mut open_model = true;
        let mut note_push = |bits: usize, tr: &mut Trace, fill: &mut usize| {
            if bits == 0 { return; }
            *fill += bits;
            if *fill >= buf_bits {
                if *fill > buf_bits { tr.flush_overflow = true; } else { tr.flush_exact = true; }
                *fill -= buf_bits;
            }
        };
        for (i, op) in self.ops.iter().enumerate() {
            if tr.push_panicked && op.is_push() { continue; }
            let res = catch(|| -> Result<(), Violation> {
                match (op, &mut w) {
                    (WOp::Bit(b), W::Raw(x)) => { x.push_bit(*b); },
                    (WOp::Int { v: val, w: width }, W::Raw(x)) => unsafe { x.push_int(*val, *width); },
                    (WOp::Bits { n, salt }, W::Raw(x)) => { let c = rand_bits(*n, *salt); for j in 0..*n { x.push_bit((c[j / 64] >> (j % 64)) & 1 == 1); } },
                    (WOp::Ints { n, w: width, salt }, W::Raw(x)) => { for val in rand_vals(*n, *salt) { unsafe { x.push_int(val, *width); } } },
                    (WOp::Push(val), W::Int(x)) => { x.push(*val); },
                    (WOp::PushN { n, salt }, W::Int(x)) => { for val in rand_vals(*n, *salt) { x.push(val); } },
                    (WOp::Extend { ity, n, salt, inexact }, W::Int(x)) => {
                        let vals = rand_vals(*n, *salt);
                        if *inexact {
                            // filter() reports a size hint of (0, Some(n)): nothing may rely on the hint.
                            match ity {
                                0 => x.extend(vals.iter().map(|a| *a as u8).filter(|_| true)),
                                1 => x.extend(vals.iter().map(|a| *a as u16).filter(|_| true)),
                                2 => x.extend(vals.iter().map(|a| *a as u32).filter(|_| true)),
                                3 => x.extend(vals.into_iter().filter(|_| true)),
                                _ => x.extend(vals.iter().map(|a| *a as usize).filter(|_| true)),
                            }
                        } else {
                            match ity {
                                0 => x.extend(vals.iter().map(|a| *a as u8).collect::<Vec<u8>>()),
                                1 => x.extend(vals.iter().map(|a| *a as u16).collect::<Vec<u16>>()),
                                2 => x.extend(vals.iter().map(|a| *a as u32).collect::<Vec<u32>>()),
                                3 => x.extend(vals),
                                _ => x.extend(vals.iter().map(|a| *a as usize).collect::<Vec<usize>>()),
                            }
                        }
                    },
                    (WOp::ExtendPanics { n, at, salt }, W::Int(x)) => {
                        let vals = rand_vals(*n, *salt);
                        let at = *at;
                        let r = catch(std::panic::AssertUnwindSafe(|| x.extend(vals.into_iter().enumerate().map(move |(i, v)| { if i >= at { panic!("sdsim: the caller's iterator panics"); } v }))));
                        match r { Err(ref m) if m.contains("the caller's iterator panics") => {}, Err(p) => return Err(v("extend-panic", site, format!("op {}: extend panicked on its own: {}", i, p))), Ok(()) => if at < *n { return Err(v("harness", "writer-op", "the iterator should have panicked".into())); } }
                    },
                    (WOp::Len, _) if tr.push_panicked => {},
                    (WOp::Len, W::Raw(x)) => { if x.len() != len_model { return Err(v("len", site, format!("op {}: len() = {}, {} bits were pushed", i, x.len(), len_model))); } if x.is_empty() != (len_model == 0) { return Err(v("len", site, "is_empty() disagrees with len()".into())); } },
                    (WOp::Len, W::Int(x)) => { if x.len() != len_model { return Err(v("len", site, format!("op {}: len() = {}, {} items were pushed", i, x.len(), len_model))); } if x.width() != self.width { return Err(v("len", site, "width() changed".into())); } },
                    // Once a failure has been reported the statements say nothing about is_open(): a writer may keep
                    // its file for a retry or give it up at once.
                    (WOp::IsOpen, _) if !tr.reported.is_empty() => {},
                    (WOp::IsOpen, W::Raw(x)) => { if x.is_open() != open_model { return Err(v("is-open", site, format!("op {}: is_open() = {}, expected {}", i, x.is_open(), open_model))); } },
                    (WOp::IsOpen, W::Int(x)) => { if x.is_open() != open_model { return Err(v("is-open", site, format!("op {}: is_open() = {}, expected {}", i, x.is_open(), open_model))); } },
                    (WOp::Close, _) => {},
                    (WOp::Rename, _) => {},
                    _ => { return Err(v("harness", "writer-op", format!("op {:?} does not fit writer kind {:?}", op, self.kind))); },
                }
                Ok(())
            });
            match res {
                Ok(Ok(())) => {},
                Ok(Err(viol)) => { drop_quietly(w); finish(session, stats); return Err(viol); },
                Err(p) => {
                    if op.is_push() && !open_model && self.fault.is_none() {
                        // Refusing a push into a writer that was closed is not a failure report and says nothing
                        // false; what the statement rules out is accepting the push and miscounting it.
                        tr.push_panicked = true;
                        stats.probe("push after close() refused");
                    }
                    else if op.is_push() { tr.push_panicked = true; tr.reported.push(format!("op {} ({:?}) panicked: {}", i, op, p)); }
                    else { drop_quietly(w); finish(session, stats); return Err(v("query-panic", site, format!("op {} ({:?}) panicked: {}", i, op, p))); }
                },
            }
            // Model bookkeeping (also when the push panicked: the documented panic comes after the count).
            match op {
                WOp::Bit(_) => { len_model += 1; tr.pushes += 1; note_push(1, &mut tr, &mut fill); },
                WOp::Int { w: width, .. } => { len_model += *width; tr.pushes += 1; note_push(*width, &mut tr, &mut fill); if *width == 0 { stats.probe("push_int(_, 0)"); } },
                WOp::Bits { n, .. } => { if !tr.push_panicked { len_model += *n; tr.pushes += *n as u64; for _ in 0..*n { note_push(1, &mut tr, &mut fill); } } },
                WOp::Ints { n, w: width, .. } => { if !tr.push_panicked { len_model += n * width; tr.pushes += *n as u64; for _ in 0..*n { note_push(*width, &mut tr, &mut fill); } } },
                WOp::Push(_) => { len_model += 1; tr.pushes += 1; note_push(self.width, &mut tr, &mut fill); },
                WOp::ExtendPanics { n, at, .. } => { if !tr.push_panicked { let k = (*at).min(*n); len_model += k; tr.pushes += k as u64; for _ in 0..k { note_push(self.width, &mut tr, &mut fill); } stats.probe("extend from an iterator that panics partway"); } },
                WOp::PushN { n, .. } | WOp::Extend { n, .. } => { if !tr.push_panicked { len_model += *n; tr.pushes += *n as u64; for _ in 0..*n { note_push(self.width, &mut tr, &mut fill); } } },
                WOp::Len | WOp::IsOpen => {},
                WOp::Rename => {
                    if self.real != RealMode::DevFull {
                        let to = crate::scratch::file("renamed");
                        match &session {
                            // The code under test went around the seam and owns a real file: rename that one.
                            Some(s) if s.with(|st| st.counters.opens) == 0 && path.exists() => { let _ = std::fs::rename(&path, &to); },
                            Some(s) => s.rename(&path, &to),
                            None => { let _ = std::fs::rename(&path, &to); },
                        }
                        path = to;
                        stats.probe("file renamed while the writer is open");
                    }
                },
                WOp::Close => {
                    let mut hdr = self.header.clone();
                    let r = catch(|| match &mut w {
                        W::Raw(x) => if self.header.is_empty() { x.close() } else { x.close_with_header(&mut hdr) },
                        W::Int(x) => x.close(),
                    });
                    tr.closes += 1;
                    match r {
                        Ok(Ok(())) => {
                            if open_model && fill == 0 { tr.final_flush_empty = true; }
                            open_model = false; tr.closed_ok = true;
                            if tr.first_close_snapshot.is_none() { tr.first_close_snapshot = read_file(&session, &path); }
                        },
                        Ok(Err(e)) => { tr.reported.push(format!("close #{}: {:?} {}", tr.closes, e.kind(), e)); },
                        Err(p) => { drop_quietly(w); finish(session, stats); return Err(v("close-panic", site, format!("close() panicked: {}", p))); },
                    }
                },
            }
        }
        if open_model && !tr.closed_ok { tr.dropped_open = true; }
        if self.unwind_drop {
            // The panic below is ours; what matters is that the writer's Drop runs while the thread is panicking.
            let r = catch(move || { let _in_scope = w; if true { panic!("sdsim: unrelated panic while a writer is in scope"); } });
            match r { Err(ref m) if m.contains("unrelated panic while a writer is in scope") => {}, Err(p) => { finish(session, stats); return Err(v("drop-panic", site, format!("dropping the writer during unwinding panicked: {}", p))); }, Ok(()) => {} }
            stats.probe("writer dropped while the stack unwinds");
        } else if let Err(p) = catch(move || drop(w)) { finish(session, stats); return Err(v("drop-panic", site, format!("dropping the writer panicked: {}", p))); }
        let file = read_file(&session, &path);
        if let Some(s) = &session { if s.open_handles() != 0 { let n = s.open_handles(); finish(session, stats); return Err(v("handle-leak", site, format!("{} file handles still open after drop", n))); } }
        finish(session, stats);
        let bypassed = BYPASSED.with(|b| b.replace(false));
        if self.real == RealMode::Plain || bypassed { let _ = std::fs::remove_file(&path); }
        if bypassed { stats.probe("file seam bypassed: the code under test opened the real file system directly"); }
        Ok((file, tr))
    }

    fn plan_with(&self, fault: Option<FsFault>) -> FsPlan {
        FsPlan { chunk: self.chunk.clone(), eintr: self.eintr.clone(), fault }
    }

    fn fault_points(&self, prop: &str, expected_len: usize) -> Result<Vec<FsFault>, Violation> {
        let (fam, kind, pts) = match &self.fault { Some(f) => f.clone(), None => return Ok(Vec::new()) };
        let mk = |k: u64| match fam {
            FaultFamily::Full => FsFault::Full(k, kind),
            FaultFamily::Open => FsFault::Open(k, kind),
            FaultFamily::Seek => FsFault::Seek(k, kind),
            FaultFamily::WriteOnce => FsFault::WriteOnce(k, kind),
            FaultFamily::WriteFrom => FsFault::WriteFrom(k, kind),
        };
        if let WPoints::One(k) = pts { return Ok(vec![mk(k)]); }
        // Dry run without the failing fault to count the calls.
        let mut s = Stats::default();
        let mut dry = self.clone();
        dry.fault = None;
        let counts = dry.count_calls(prop, expected_len, &mut s)?;
        let n = match fam {
            FaultFamily::Full => expected_len as u64,
            FaultFamily::Open => counts.0,
            FaultFamily::Seek => counts.1,
            FaultFamily::WriteOnce | FaultFamily::WriteFrom => counts.2,
        };
        Ok((0..n).map(mk).collect())
    }

    fn count_calls(&self, prop: &str, expected_len: usize, stats: &mut Stats) -> Result<(u64, u64, u64), Violation> {
        // Re-run with a session we can inspect: execute() consumes its session, so use a counting copy.
        let counts = std::cell::Cell::new((0u64, 0u64, 0u64));
        COUNT_SINK.with(|c| c.set(None));
        let _ = self.execute(prop, self.plan_with(None), expected_len, stats)?;
        if let Some(c) = COUNT_SINK.with(|c| c.take()) { counts.set(c); }
        Ok(counts.get())
    }

    pub fn run(&self, prop: &str) -> Outcome {
        let mut out = Outcome::default();
        let site = match self.kind { WKind::Raw => "RawVectorWriter", WKind::Int => "IntVectorWriter" };
        let v = |clause: &str, msg: String| Violation::new(prop, clause, site, msg);
        let (expected, pushes) = match catch(|| self.expected()) {
            Ok(Ok(x)) => x,
            Ok(Err(e)) => return out.fail(Violation::new(prop, "harness", "model", e)),
            Err(p) => return out.fail(Violation::new(prop, "harness", "model", p)),
        };
        if self.real == RealMode::DevFull {
            // Every write fails: the writer must say so through one of its documented channels.
            let (_, tr) = match self.execute(prop, self.plan_with(None), expected.len(), &mut out.stats) { Ok(x) => x, Err(viol) => return out.fail(viol) };
            if tr.reported.is_empty() {
                return out.fail(v("writer-devfull-silent", format!("writing to /dev/full: every call reported success ({} pushes, closes {})", tr.pushes, tr.closes)));
            }
            out.stats.probe("/dev/full: failure reported");
            return out;
        }
        if self.fault.is_none() {
            // C12: legal behaviours only; everything must succeed and the file must be exact.
            let (file, tr) = match self.execute(prop, self.plan_with(None), expected.len(), &mut out.stats) { Ok(x) => x, Err(viol) => return out.fail(viol) };
            if !tr.reported.is_empty() {
                return out.fail(v("unexpected-failure", format!("no fault was injected, yet the writer reported: {}", tr.reported.join("; "))));
            }
            let file = file.unwrap_or_default();
            if file != expected {
                let at = (0..file.len().min(expected.len())).find(|i| file[*i] != expected[*i]);
                return out.fail(v(if tr.dropped_open { "file-differs-after-drop" } else { "file-differs" }, format!("file has {} bytes, in-memory serialization {} bytes; first difference at byte {:?} (buf_len {:?}, width {}, {} pushes, closes {})", file.len(), expected.len(), at, self.buf_len, self.width, tr.pushes, tr.closes)));
            }
            if let Some(snap) = &tr.first_close_snapshot {
                if snap != &expected { return out.fail(v("file-differs-at-close", "the file was not complete when the first close() returned Ok".into())); }
            }
            out.stats.probe_if(tr.flush_overflow, "flush with carried overflow");
            out.stats.probe_if(tr.flush_exact, "flush with exactly full buffer");
            out.stats.probe_if(tr.final_flush_empty, "final flush of an empty buffer");
            out.stats.probe_if(pushes == 0, "zero pushes");
            out.stats.probe_if(self.kind == WKind::Int && self.width == 64, "width 64");
            out.stats.probe_if(tr.dropped_open, "dropped while open");
            out.stats.probe_if(tr.closes >= 2, "close() called again after success");
            out.stats.probe_if(self.buf_len.is_none() && (tr.flush_overflow || tr.flush_exact), "default-buffer flush");
            out.stats.probe_if(self.buf_len == Some(0), "buffer size 0");
            out.stats.probe_if(self.effective_buf_bits() > 8 * 1024 * 1024 && (tr.flush_overflow || tr.flush_exact), "flush of a buffer larger than the default");
            out.stats.probe_if(self.effective_buf_bits() > 64 * 1024 * 1024 && pushes > 0, "buffer above 8 MiB");
            out.stats.probe_if(!self.header.is_empty(), "parent header (close_with_header)");
            let zero_run = self.ops.iter().any(|op| match op { WOp::Ints { n, w, salt } => salt >> 16 == 1 && n * w >= 32_768, WOp::PushN { n, salt } | WOp::Extend { n, salt, .. } => salt >> 16 == 1 && n * self.width >= 32_768, _ => false });
            out.stats.probe_if(zero_run && tr.flush_exact && self.effective_buf_bits() >= 32_768, "whole buffer of zeros ending on a flush boundary");
            out.stats.probe_if(self.real == RealMode::Plain, "real file system cross-check");
            out.stats.probe_if(self.preexisting > expected.len(), "longer file already present");
            return out;
        }

        // C14 f/g: every fault point of the family.
        let faults = match self.fault_points(prop, expected.len()) { Ok(f) => f, Err(viol) => return out.fail(viol) };
        for fault in faults {
            let (file, tr) = match self.execute(prop, self.plan_with(Some(fault.clone())), expected.len(), &mut out.stats) { Ok(x) => x, Err(mut viol) => { viol.message = format!("[fault {:?}] {}", fault, viol.message); return out.fail(viol) } };
            let file = file.unwrap_or_default();
            // A limit that persists (full disk, size limit, every write failing) cannot be outlasted by asking again:
            // no close() may return Ok unless the file is complete at that moment, whatever was reported earlier.
            let persistent = matches!(fault, FsFault::Full(..) | FsFault::WriteFrom(..));
            if persistent && tr.closed_ok {
                let snap = tr.first_close_snapshot.clone().unwrap_or_default();
                if snap != expected {
                    return out.fail(v("writer-close-ok-incomplete", format!("[fault {:?}] close() returned Ok (after: {}) although the file has {} bytes and differs from the expected {} bytes", fault, if tr.reported.is_empty() { "no earlier failure".to_string() } else { tr.reported.join("; ") }, snap.len(), expected.len())));
                }
            }
            out.stats.probe_if(persistent && !tr.reported.is_empty() && tr.closes >= 2, "close() asked again after a reported failure");
            if tr.reported.is_empty() && file != expected {
                let clause = match fault { FsFault::Full(..) => "writer-full-silent", FsFault::Open(..) => "writer-open-silent", FsFault::Seek(..) => "writer-seek-silent", _ => "writer-write-silent" };
                return out.fail(v(clause, format!("[fault {:?}] every call reported success (closes {}), but the file has {} bytes and differs from the expected {} bytes", fault, tr.closes, file.len(), expected.len())));
            }
            out.stats.probe_if(tr.push_panicked, "failure reported by a panicking push");
            out.stats.probe_if(tr.reported.iter().any(|r| r.starts_with("close")), "failure reported by close()");
            out.stats.probe_if(tr.reported.iter().any(|r| r.starts_with("constructor")), "failure reported by the constructor");
            out.stats.probe_if(tr.reported.is_empty(), "fault absorbed: file complete and correct");
        }
        out
    }

    pub fn narrow_candidates(&self, prop: &str) -> Vec<Writer> {
        let (fam, kind, pts) = match &self.fault { Some(f) => f.clone(), None => return Vec::new() };
        if pts != WPoints::All { return Vec::new(); }
        let expected = match catch(|| self.expected()) { Ok(Ok(x)) => x.0, _ => return Vec::new() };
        let faults = match self.fault_points(prop, expected.len()) { Ok(f) => f, Err(_) => return Vec::new() };
        faults.into_iter().map(|f| {
            let k = match f { FsFault::Full(k, _) | FsFault::Open(k, _) | FsFault::Seek(k, _) | FsFault::WriteOnce(k, _) | FsFault::WriteFrom(k, _) | FsFault::ReadAt(k, _) => k };
            let mut one = self.clone();
            one.fault = Some((fam, kind, WPoints::One(k)));
            one
        }).collect()
    }

    pub fn simpler(&self) -> Vec<Writer> {
        let mut out = Vec::new();
        // Drop operations (keep closes required for soundness).
        for i in 0..self.ops.len() {
            let is_last_close = self.ops[i] == WOp::Close && self.ops.iter().filter(|o| **o == WOp::Close).count() == 1 && (!self.header.is_empty() || self.fault.is_some());
            if !is_last_close { let mut s = self.clone(); s.ops.remove(i); out.push(s); }
        }
        for (i, op) in self.ops.iter().enumerate() {
            let smaller: Vec<WOp> = match op {
                WOp::Bits { n, salt } if *n > 1 => vec![WOp::Bits { n: n / 2, salt: *salt }, WOp::Bits { n: n - 1, salt: *salt }],
                WOp::Ints { n, w, salt } if *n > 1 => vec![WOp::Ints { n: n / 2, w: *w, salt: *salt }, WOp::Ints { n: n - 1, w: *w, salt: *salt }],
                WOp::PushN { n, salt } if *n > 1 => vec![WOp::PushN { n: n / 2, salt: *salt }, WOp::PushN { n: n - 1, salt: *salt }],
                WOp::ExtendPanics { n, at, salt } if *n > 1 => vec![WOp::ExtendPanics { n: n / 2, at: (*at).min(n / 2), salt: *salt }, WOp::PushN { n: *at, salt: *salt }],
                WOp::Extend { ity, n, salt, inexact } if *n > 0 => vec![WOp::Extend { ity: *ity, n: n / 2, salt: *salt, inexact: *inexact }, WOp::PushN { n: *n, salt: *salt }],
                WOp::Int { v, w } if *v != 0 => vec![WOp::Int { v: 0, w: *w }],
                WOp::Push(v) if *v != 0 => vec![WOp::Push(0)],
                _ => vec![],
            };
            for sm in smaller { let mut s = self.clone(); s.ops[i] = sm; out.push(s); }
        }
        if !self.chunk.is_unbounded() { let mut s = self.clone(); s.chunk = Chunk::Unbounded; out.push(s); }
        if !self.eintr.is_empty() { let mut s = self.clone(); s.eintr.clear(); out.push(s); }
        if self.kind == WKind::Raw && !self.header.is_empty() { let mut s = self.clone(); s.header.clear(); out.push(s); }
        if let Some(b) = self.buf_len { if b > 64 { let mut s = self.clone(); s.buf_len = Some(64); out.push(s); let mut s = self.clone(); s.buf_len = Some(b / 2); out.push(s); } }
        if self.real != RealMode::Sim { let mut s = self.clone(); s.real = RealMode::Sim; out.push(s); }
        if self.preexisting > 0 { let mut s = self.clone(); s.preexisting = 0; out.push(s); }
        if self.unwind_drop { let mut s = self.clone(); s.unwind_drop = false; out.push(s); }
        if let Some((fam, kind, WPoints::One(k))) = &self.fault { for kk in [0u64, k / 2, k.saturating_sub(8), k.saturating_sub(1)] { if kk < *k { let mut s = self.clone(); s.fault = Some((*fam, *kind, WPoints::One(kk))); out.push(s); } } }
        out
    }
}

/// Lowers the soft RLIMIT_FSIZE of this process (SIGXFSZ ignored, so that writes fail with EFBIG
/// instead of killing the process); restores it when dropped.
struct FsizeLimit {
    old: libc::rlimit,
}

impl FsizeLimit {
    fn set(limit: u64) -> FsizeLimit {
        unsafe {
            libc::signal(libc::SIGXFSZ, libc::SIG_IGN);
            let mut old = libc::rlimit { rlim_cur: 0, rlim_max: 0 };
            libc::getrlimit(libc::RLIMIT_FSIZE, &mut old);
            let new = libc::rlimit { rlim_cur: (limit as libc::rlim_t).min(old.rlim_max), rlim_max: old.rlim_max };
            libc::setrlimit(libc::RLIMIT_FSIZE, &new);
            FsizeLimit { old }
        }
    }
}

impl Drop for FsizeLimit {
    fn drop(&mut self) {
        unsafe { libc::setrlimit(libc::RLIMIT_FSIZE, &self.old); }
    }
}

thread_local! {
    static BYPASSED: std::cell::Cell<bool> = std::cell::Cell::new(false);
}

thread_local! {
    static COUNT_SINK: std::cell::Cell<Option<(u64, u64, u64)>> = std::cell::Cell::new(None);
}

/// Accounts for the session's I/O and publishes its call counts for `count_calls`.
fn finish(session: Option<FsSession>, stats: &mut Stats) {
    if let Some(s) = session {
        s.with(|st| {
            stats.steps += st.io.calls + st.counters.opens + st.counters.seeks + st.counters.closes;
            stats.fault("W1-short", st.io.short);
            stats.fault("W2-eintr", st.io.eintr);
            stats.fault("F1-open", st.counters.open_failed);
            stats.fault("F2-seek", st.counters.seek_failed);
            stats.fault("F3-full", st.counters.full_hits);
            stats.fault("F4-write", st.counters.write_failed);
            if st.io.short + st.io.eintr + st.io.err + st.counters.open_failed + st.counters.seek_failed > 0 { stats.sigs.insert(st.io.sig); }
            if st.io.exceeded_cap { stats.probe("step cap exceeded"); }
            for off in st.counters.fail_offsets.iter() {
                if *off < 64 { stats.probe("fault in a header write"); } else { stats.probe("fault in a body write"); }
            }
            COUNT_SINK.with(|c| c.set(Some((st.counters.opens, st.counters.seeks, st.counters.writes))));
        });
    }
}

fn drop_quietly(w: W) {
    let _ = catch(move || drop(w));
}

fn apply_model(m: &mut M, op: &WOp, pushes: &mut u64) {
    match (op, m) {
        (WOp::Bit(b), M::Raw(x)) => { x.push_bit(*b); *pushes += 1; },
        (WOp::Int { v, w }, M::Raw(x)) => { unsafe { x.push_int(*v, *w); } *pushes += 1; },
        (WOp::Bits { n, salt }, M::Raw(x)) => { let c = rand_bits(*n, *salt); for j in 0..*n { x.push_bit((c[j / 64] >> (j % 64)) & 1 == 1); } *pushes += *n as u64; },
        (WOp::Ints { n, w, salt }, M::Raw(x)) => { for val in rand_vals(*n, *salt) { unsafe { x.push_int(val, *w); } } *pushes += *n as u64; },
        (WOp::Push(v), M::Int(x)) => { x.push(*v); *pushes += 1; },
        (WOp::PushN { n, salt }, M::Int(x)) => { for val in rand_vals(*n, *salt) { x.push(val); } *pushes += *n as u64; },
        (WOp::ExtendPanics { n, at, salt }, M::Int(x)) => {
            for val in rand_vals(*n, *salt).into_iter().take(*at) { x.push(val); }
            *pushes += (*at).min(*n) as u64;
        },
        (WOp::Extend { ity, n, salt, .. }, M::Int(x)) => {
            for val in rand_vals(*n, *salt) {
                let t = match ity { 0 => val as u8 as u64, 1 => val as u16 as u64, 2 => val as u32 as u64, _ => val };
                x.push(t);
            }
            *pushes += *n as u64;
        },
        _ => {},
    }
}
