//! Engine `namesim` (part of C20): volume and hand-over schedules with REAL threads.
//!
//! shuttle runs its threads as coroutines on one OS thread, so state kept in a `std::thread_local!`
//! or anything that depends on how many calls one OS thread makes is invisible to it. This engine
//! closes that gap without giving up determinism: real threads are started, but a token decides
//! which one runs; exactly one thread is runnable at any time, so the interleaving is the one the
//! scenario prescribes (thread t takes `turn` calls, then hands the token on).

use serde::{Deserialize, Serialize};
use std::collections::BTreeSet;
use std::sync::mpsc;

use crate::core::{catch, Outcome, Violation};
use crate::rng::Rng;

#[derive(Clone, Debug, Serialize, Deserialize)]
pub struct NameVolume {
    /// Calls per thread.
    pub calls: Vec<usize>,
    pub parts: Vec<String>,
    /// Calls a thread makes before it hands the token to the next thread (0 = run to completion).
    pub turn: usize,
}

impl NameVolume {
    pub fn generate(rng: &mut Rng, big: bool) -> NameVolume {
        let threads = rng.range_usize(2, 5);
        const PARTS: [&str; 9] = ["", "_", "a", "tmp_0_0", "7", "x_1", "index.gbz", "v1.2", "."];
        let same = rng.chance(1, 2);
        let first = rng.pick(&PARTS).to_string();
        let mut calls = Vec::new();
        let mut parts = Vec::new();
        for _ in 0..threads {
            calls.push(match rng.below(8) { 0 => 1, 1 => rng.range_usize(2, 300), 2 | 3 => rng.range_usize(300, 5000), 4 => 65_535, 5 => 65_537, 6 => 70_000, _ => if big { rng.range_usize(100_000, 300_000) } else { rng.range_usize(60_000, 80_000) } });
            parts.push(if same { first.clone() } else { rng.pick(&PARTS).to_string() });
        }
        let turn = match rng.below(5) { 0 | 1 => 0, 2 => 1, 3 => rng.range_usize(2, 1000), _ => 65_536 };
        NameVolume { calls, parts, turn }
    }

    pub fn run(&self, prop: &str) -> Outcome {
        let mut out = Outcome::default();
        out.stats.evaluations = 1;
        let n = self.calls.len();
        // Token ring: thread t waits for the token, makes up to `turn` calls, passes the token to the next unfinished thread.
        let mut senders: Vec<mpsc::Sender<()>> = Vec::new();
        let mut receivers: Vec<Option<mpsc::Receiver<()>>> = Vec::new();
        for _ in 0..n { let (s, r) = mpsc::channel(); senders.push(s); receivers.push(Some(r)); }
        let (done_tx, done_rx) = mpsc::channel::<(usize, Vec<String>)>();
        let remaining = std::sync::Arc::new(std::sync::Mutex::new(self.calls.clone()));
        let mut handles = Vec::new();
        for t in 0..n {
            let rx = receivers[t].take().unwrap();
            let senders = senders.clone();
            let done_tx = done_tx.clone();
            let remaining = remaining.clone();
            let part = self.parts[t].clone();
            let turn = self.turn;
            handles.push(std::thread::spawn(move || {
                let mut mine: Vec<String> = Vec::new();
                loop {
                    if rx.recv().is_err() { break; }
                    let todo = { let r = remaining.lock().unwrap(); r[t] };
                    let k = if turn == 0 { todo } else { todo.min(turn) };
                    for _ in 0..k { mine.push(simple_sds::serialize::temp_file_name(&part).to_string_lossy().into_owned()); }
                    let next = {
                        let mut r = remaining.lock().unwrap();
                        r[t] -= k;
                        (1..=n).map(|d| (t + d) % n).find(|u| r[*u] > 0)
                    };
                    let finished = { remaining.lock().unwrap()[t] == 0 };
                    match next { Some(u) => { let _ = senders[u].send(()); }, None => {} }
                    if finished { break; }
                }
                let _ = done_tx.send((t, mine));
                // Keep the thread's receiver alive until everyone is done is not needed: senders ignore errors.
            }));
        }
        drop(done_tx);
        let first = (0..n).find(|t| self.calls[*t] > 0);
        if let Some(t) = first { let _ = senders[t].send(()); }
        let mut all: Vec<(usize, Vec<String>)> = Vec::new();
        let joined = catch(|| { for h in handles { let _ = h.join(); } });
        while let Ok(x) = done_rx.try_recv() { all.push(x); }
        if joined.is_err() || all.len() != n {
            return out.fail(Violation::new(prop, "name-panic", "temp_file_name", format!("a calling thread panicked ({} of {} threads reported)", all.len(), n)));
        }
        let mut seen: BTreeSet<&str> = BTreeSet::new();
        let mut total = 0u64;
        for (t, names) in all.iter() {
            if names.len() != self.calls[*t] { return out.fail(Violation::new(prop, "harness", "namesim", format!("thread {} made {} calls, expected {}", t, names.len(), self.calls[*t]))); }
            for name in names.iter() {
                total += 1;
                let file = std::path::Path::new(name).file_name().map(|f| f.to_string_lossy().into_owned()).unwrap_or_default();
                if !file.contains(self.parts[*t].as_str()) {
                    return out.fail(Violation::new(prop, "name-part", "temp_file_name", format!("{:?} does not contain the caller's name part {:?}", name, self.parts[*t])));
                }
                if !seen.insert(name.as_str()) {
                    return out.fail(Violation::new(prop, "duplicate-volume", "temp_file_name", format!("the path {:?} was returned twice ({} threads, calls per thread {:?}, hand-over every {} calls)", name, n, self.calls, self.turn)));
                }
            }
        }
        out.stats.steps = total;
        out.stats.sigs.insert(crate::rng::fnv(format!("{:?}|{}", self.calls.iter().map(|c| if *c > 65_536 { 3 } else if *c > 4096 { 2 } else if *c > 1 { 1 } else { 0 }).collect::<Vec<_>>(), match self.turn { 0 => 0, 1 => 1, x if x < 65_536 => 2, _ => 3 }).as_bytes()));
        out.stats.fault("T2-prescribed hand-over between real threads", if self.turn == 0 { n as u64 - 1 } else { (total / self.turn.max(1) as u64).max(1) });
        out.stats.probe_if(self.calls.iter().any(|c| *c > 65_536), "a thread with more than 65536 calls");
        out.stats.probe_if(self.turn == 1, "strict alternation between real threads");
        out.stats.probe_if(self.turn == 0, "threads run to completion one after another");
        out
    }

    pub fn simpler(&self) -> Vec<NameVolume> {
        let mut out = Vec::new();
        if self.calls.len() > 2 { for i in 0..self.calls.len() { let mut s = self.clone(); s.calls.remove(i); s.parts.remove(i); out.push(s); } }
        for i in 0..self.calls.len() {
            let c = self.calls[i];
            for smaller in [1usize, c / 2, c.saturating_sub(1)] { if smaller < c && smaller > 0 { let mut s = self.clone(); s.calls[i] = smaller; out.push(s); } }
        }
        if self.turn != 0 { let mut s = self.clone(); s.turn = 0; out.push(s); }
        for i in 0..self.parts.len() { if self.parts[i] != "a" { let mut s = self.clone(); s.parts[i] = "a".into(); out.push(s); } }
        out
    }
}
