//! Engine `namesim` (part of C20): volume, thread lifetimes and hand-over schedules with REAL threads.
//!
//! shuttle runs its threads as coroutines on one OS thread, so state kept in a `std::thread_local!`
//! (and its destructor at thread exit), or anything that depends on how many calls one OS thread
//! makes, is invisible to it. This engine closes that gap without giving up determinism: the
//! scenario is an explicit schedule of steps "thread t makes k calls"; the harness thread is the
//! scheduler. A thread is spawned at its first step, runs only while the harness waits for it, and
//! is joined right after its last step - so its thread-local destructors have run before the next
//! step starts. Exactly one thread is runnable at any time; the run replays exactly.

use serde::{Deserialize, Serialize};
use std::collections::BTreeSet;
use std::sync::mpsc;

use crate::core::{catch, Outcome, Violation};
use crate::rng::Rng;

#[derive(Clone, Debug, Serialize, Deserialize)]
pub struct NameVolume {
    /// Name part per thread; the number of threads is `parts.len()`.
    pub parts: Vec<String>,
    /// Steps (thread, calls). A thread starts at its first step and exits after its last one.
    pub schedule: Vec<(usize, usize)>,
    /// Per thread: names requested from the destructor of a thread-local value of the caller while the thread
    /// exits (0 = none), and whether that value is created before the thread's first ordinary call.
    #[serde(default)]
    pub exit_calls: Vec<(usize, bool)>,
    /// (step, directory): before that step the process's TMPDIR is pointed at directory 0 (the original one),
    /// 1 or 2 (two scratch directories). Switching away and back must not bring old names back.
    #[serde(default)]
    pub tmp_switch: Vec<(usize, u8)>,
    /// (step, remove): at that step the thread first runs the crate's public self-test helper
    /// `serialize::test(value, part, size, remove)`, which takes a name of its own; with `remove == false` it hands the
    /// path of the file it kept back to the caller, and that path is a name like any other.
    #[serde(default)]
    pub test_calls: Vec<(usize, bool)>,
}

/// Restores TMPDIR when the scenario ends, whichever way it ends.
struct TmpDirGuard(Option<std::ffi::OsString>, bool);
impl Drop for TmpDirGuard {
    fn drop(&mut self) {
        if !self.1 { return; }
        match &self.0 { Some(v) => std::env::set_var("TMPDIR", v), None => std::env::remove_var("TMPDIR") }
        let tmp0 = std::env::temp_dir();
        for d in 1..=2 { let _ = std::fs::remove_dir_all(tmp0.join(format!("sdsim-tmpdir-{}-{}", std::process::id(), d))); }
    }
}

struct ExitGuard {
    part: String,
    calls: usize,
    sink: std::sync::Arc<std::sync::Mutex<Vec<String>>>,
}

impl Drop for ExitGuard {
    fn drop(&mut self) {
        for _ in 0..self.calls {
            let name = simple_sds::serialize::temp_file_name(&self.part).to_string_lossy().into_owned();
            if let Ok(mut g) = self.sink.lock() { g.push(name); }
        }
    }
}

thread_local! {
    static EXIT_GUARD: std::cell::RefCell<Option<ExitGuard>> = std::cell::RefCell::new(None);
}

enum Cmd {
    /// `k` calls; before them, optionally, one `serialize::test(.., remove)`.
    Go(usize, Option<bool>),
    Exit,
}

/// What a step hands back: the names themselves, or (for histories of millions of calls) two independent 64-bit
/// digests per name, with the containment of the name part checked on the spot.
enum Res {
    Names(Vec<String>),
    Digests { d: Vec<(u64, u64)>, missing_part: Option<String> },
}

fn contains_part(name: &str, part: &str) -> bool {
    // A name part with a directory separator can only be looked for in the whole path.
    if part.contains('/') { return name.contains(part); }
    std::path::Path::new(name).file_name().map(|f| f.to_string_lossy().contains(part)).unwrap_or(false)
}

fn digest(name: &str) -> (u64, u64) {
    let mut a = 0xcbf2_9ce4_8422_2325u64;
    let mut b = 0x9E37_79B9_7F4A_7C15u64;
    for byte in name.as_bytes() { a = (a ^ *byte as u64).wrapping_mul(0x0000_0100_0000_01B3); b = (b.rotate_left(5) ^ *byte as u64).wrapping_mul(0xFF51_AFD7_ED55_8CCD); }
    (a, b)
}

fn tame(part: &str) -> bool {
    !part.is_empty() && part.len() < 100 && part.chars().all(|c| c.is_ascii_alphanumeric() || "._-{}<>:?* ".contains(c))
}

impl NameVolume {
    pub fn generate(rng: &mut Rng, big: bool) -> NameVolume {
        // Now and then a crowd: more than a thousand (or two thousand) short-lived threads.
        if rng.chance(1, 12) { return NameVolume::generate_crowd(rng); }
        let threads = rng.range_usize(2, 6);
        // "<TMP>" stands for the temporary directory: different spellings of one path.
        const PARTS: [&str; 21] = ["", "_", "a", "tmp_0_0", "7", "x_1", "index.gbz", "v1.2", ".", "x", "./x", "<TMP>/x", "Vec<u64>", "a:b", "what?", "tab\there", "star*|\"q\"", "{pid}", "shard-{count}", "{name}_{pid}_{count}", "{}"];
        let same = rng.chance(1, 2);
        let long = |rng: &mut Rng| -> String { let n = *rng.pick(&[200usize, 245, 250, 255, 300]); let mut s = String::from("long-"); while s.len() < n { s.push((b'a' + (s.len() % 26) as u8) as char); } s };
        let first = if rng.chance(1, 10) { long(rng) } else { rng.pick(&PARTS).to_string() };
        let parts: Vec<String> = (0..threads).map(|_| if same { first.clone() } else { rng.pick(&PARTS).to_string() }).collect();
        // Per thread: a quota and a chunk size; chunks are then interleaved in a random order that
        // keeps each thread's own chunks in order. Some threads start late, some finish early.
        let mut chunks: Vec<Vec<usize>> = Vec::new();
        for _ in 0..threads {
            let quota = match rng.below(10) { 0 => 1, 1 | 2 => rng.range_usize(2, 40), 3 => rng.range_usize(17, 100), 4 => rng.range_usize(300, 5000), 5 => 65_535, 6 => 65_537, 7 => 70_000, 8 => *rng.pick(&[1_048_575usize, 1_048_577, 1_100_000]), _ => if big { rng.range_usize(100_000, 300_000) } else { rng.range_usize(60_000, 80_000) } };
            let chunk = match rng.below(6) { 0 => quota, 1 => 1, 2 => rng.range_usize(1, 40), 3 => 16, 4 => 33, _ => rng.range_usize(1, quota.max(1)) }.max(1);
            let mut v = Vec::new();
            let mut left = quota;
            while left > 0 && v.len() < 12 { let k = chunk.min(left); v.push(k); left -= k; }
            if left > 0 { v.push(left); }
            chunks.push(v);
        }
        let mut cursor = vec![0usize; threads];
        let mut schedule = Vec::new();
        loop {
            let open: Vec<usize> = (0..threads).filter(|t| cursor[*t] < chunks[*t].len()).collect();
            if open.is_empty() { break; }
            let t = *rng.pick(&open);
            schedule.push((t, chunks[t][cursor[t]]));
            cursor[t] += 1;
        }
        let exit_calls: Vec<(usize, bool)> = (0..threads).map(|_| if rng.chance(1, 4) { (rng.range_usize(1, 40), rng.bool()) } else { (0, false) }).collect();
        // One history in five moves the temporary directory away and back while names are being handed out.
        let mut tmp_switch = Vec::new();
        if rng.chance(1, 5) && schedule.len() >= 2 {
            let pattern: &[u8] = *rng.pick(&[&[1u8, 0][..], &[1, 2, 1][..], &[1, 0, 1, 0][..], &[2, 0][..]]);
            let mut at = 0usize;
            for d in pattern { at = rng.range_usize(at + 1, schedule.len().max(at + 2)); tmp_switch.push((at, *d)); }
        }
        // One history in six also runs the crate's self-test helper from some steps, keeping or removing its file.
        let mut test_calls = Vec::new();
        if rng.chance(1, 6) { for _ in 0..rng.range_usize(1, 3) { test_calls.push((rng.below_usize(schedule.len()), rng.chance(1, 3))); } }
        NameVolume { parts, schedule, exit_calls, tmp_switch, test_calls }
    }

    /// More than 2^24 names in one process (a counter field of 24 bits would wrap): a handful of threads taking turns.
    pub fn generate_wrap(rng: &mut Rng) -> NameVolume {
        let threads = rng.range_usize(1, 4);
        let part = rng.pick(&["wrap", "a", "x_1"]).to_string();
        let total = (1usize << 24) + rng.range_usize(2, 5000);
        let mut schedule = vec![(0usize, 1usize)];
        let mut left = total - 1;
        while left > 0 { let k = rng.range_usize(1, 4_000_000).min(left); schedule.push((rng.below_usize(threads), k)); left -= k; }
        NameVolume { parts: vec![part; threads], schedule, exit_calls: Vec::new(), tmp_switch: Vec::new(), test_calls: Vec::new() }
    }

    /// 1030-2100 threads that each request one to three names with the same name part; mostly one after another,
    /// a few dozen of them alive at the same time.
    pub fn generate_crowd(rng: &mut Rng) -> NameVolume {
        let threads = *rng.pick(&[1030usize, 1500, 2100]);
        let part = rng.pick(&["crowd", "a", "x_1"]).to_string();
        let overlap = rng.range_usize(1, 40);
        let mut schedule = Vec::new();
        // Thread t takes its first name when it starts and the rest `overlap` threads later, so that about
        // `overlap` threads are alive at any time.
        for t in 0..threads + overlap {
            if t < threads { schedule.push((t, 1)); }
            if t >= overlap { schedule.push((t - overlap, rng.range_usize(1, 2))); }
        }
        NameVolume { parts: vec![part; threads], schedule, exit_calls: Vec::new(), tmp_switch: Vec::new(), test_calls: Vec::new() }
    }

    pub fn run(&self, prop: &str) -> Outcome {
        let mut out = Outcome::default();
        out.stats.evaluations = 1;
        let n = self.parts.len();
        let tmp0 = std::env::temp_dir();
        let _restore = TmpDirGuard(std::env::var_os("TMPDIR"), !self.tmp_switch.is_empty());
        let last_step: Vec<Option<usize>> = (0..n).map(|t| self.schedule.iter().rposition(|(u, _)| *u == t)).collect();
        let mut workers: Vec<Option<(mpsc::Sender<Cmd>, mpsc::Receiver<Res>, std::thread::JoinHandle<()>)>> = (0..n).map(|_| None).collect();
        let mut all: Vec<(usize, String)> = Vec::new();
        let total_calls: usize = self.schedule.iter().map(|(_, k)| *k).sum();
        let light = total_calls > 3_000_000;
        let mut digests: Vec<(u64, u64)> = Vec::new();
        let mut kept_files: Vec<String> = Vec::new();
        let exit_sinks: Vec<std::sync::Arc<std::sync::Mutex<Vec<String>>>> = (0..n).map(|_| std::sync::Arc::new(std::sync::Mutex::new(Vec::new()))).collect();
        let mut alive_max = 0usize;
        let mut late_start = false;
        let mut exit_while_others_alive = false;
        for (i, (t, k)) in self.schedule.iter().enumerate() {
            if *t >= n { return out.fail(Violation::new(prop, "harness", "namesim", "bad thread index".into())); }
            for (_, d) in self.tmp_switch.iter().filter(|(at, _)| *at == i) {
                // Only the harness thread runs here: every worker is parked on its channel.
                let dir = if *d == 0 { tmp0.clone() } else { let p = tmp0.join(format!("sdsim-tmpdir-{}-{}", std::process::id(), d)); let _ = std::fs::create_dir_all(&p); p };
                std::env::set_var("TMPDIR", &dir);
                out.stats.fault("E1-TMPDIR switched between calls", 1);
            }
            if workers[*t].is_none() {
                if i > 0 && workers.iter().any(|w| w.is_some()) { late_start = true; }
                let (cmd_tx, cmd_rx) = mpsc::channel::<Cmd>();
                let (res_tx, res_rx) = mpsc::channel::<Res>();
                let part = self.parts[*t].replace("<TMP>", &tmp0.to_string_lossy());
                let (exit_k, guard_first) = self.exit_calls.get(*t).cloned().unwrap_or((0, false));
                let sink = exit_sinks[*t].clone();
                let h = std::thread::spawn(move || {
                    let install = |part: &String| { if exit_k > 0 { EXIT_GUARD.with(|g| { if g.borrow().is_none() { *g.borrow_mut() = Some(ExitGuard { part: part.clone(), calls: exit_k, sink: sink.clone() }); } }); } };
                    if guard_first { install(&part); }
                    while let Ok(cmd) = cmd_rx.recv() {
                        match cmd {
                            Cmd::Go(k, test) => {
                                let mut names = Vec::with_capacity(if light { 1 } else { k + 1 });
                                if let Some(remove) = test {
                                    // The helper panics when its own checks fail; that would be a finding of another property.
                                    let value: Vec<u64> = vec![1, 2, 3];
                                    if let Ok(Some(kept)) = catch(|| simple_sds::serialize::test(&value, &part, Some(4), remove)) { names.push(kept.to_string_lossy().into_owned()); }
                                }
                                let res = if light {
                                    let mut d = Vec::with_capacity(k + names.len());
                                    let mut missing_part = None;
                                    for name in names.iter() { d.push(digest(name)); }
                                    for _ in 0..k {
                                        let name = simple_sds::serialize::temp_file_name(&part).to_string_lossy().into_owned();
                                        if missing_part.is_none() && !contains_part(&name, &part) { missing_part = Some(name.clone()); }
                                        d.push(digest(&name));
                                        crate::core::progress();
                                    }
                                    Res::Digests { d, missing_part }
                                } else {
                                    for _ in 0..k { names.push(simple_sds::serialize::temp_file_name(&part).to_string_lossy().into_owned()); crate::core::progress(); }
                                    Res::Names(names)
                                };
                                if !guard_first { install(&part); }
                                if res_tx.send(res).is_err() { break; }
                            },
                            Cmd::Exit => break,
                        }
                    }
                });
                workers[*t] = Some((cmd_tx, res_rx, h));
            }
            alive_max = alive_max.max(workers.iter().filter(|w| w.is_some()).count());
            let done = {
                let w = workers[*t].as_ref().unwrap();
                let test = self.test_calls.iter().find(|(at, _)| *at == i).map(|(_, r)| *r).filter(|_| tame(&self.parts[*t]));
                if test.is_some() { out.stats.probe("serialize::test run between the calls"); }
                if w.0.send(Cmd::Go(*k, test)).is_err() { None } else { w.1.recv().ok().map(|r| (r, test)) }
            };
            match done {
                Some((Res::Names(names), test)) => {
                    if test == Some(false) && names.len() == *k + 1 { kept_files.push(names[0].clone()); }
                    for name in names { all.push((*t, name)); }
                },
                Some((Res::Digests { d, missing_part }, _)) => {
                    if let Some(name) = missing_part { return out.fail(Violation::new(prop, "name-part", "temp_file_name", format!("{:?} does not contain the caller's name part {:?}", name, self.parts[*t]))); }
                    digests.extend(d);
                },
                None => {
                    return out.fail(Violation::new(prop, "name-panic", "temp_file_name", format!("the thread of step {} (thread {}, {} calls) died", i, t, k)));
                },
            }
            if last_step[*t] == Some(i) {
                // Last step of this thread: let it exit and wait until it is gone (thread-local destructors included).
                let (tx, _rx, h) = workers[*t].take().unwrap();
                let _ = tx.send(Cmd::Exit);
                if catch(|| h.join()).map(|r| r.is_err()).unwrap_or(true) {
                    return out.fail(Violation::new(prop, "name-panic", "temp_file_name", format!("thread {} panicked while exiting", t)));
                }
                if workers.iter().any(|w| w.is_some()) { exit_while_others_alive = true; }
                // Names handed out while the thread was exiting.
                let late: Vec<String> = exit_sinks[*t].lock().map(|g| g.clone()).unwrap_or_default();
                let want = self.exit_calls.get(*t).map(|e| e.0).unwrap_or(0);
                if late.len() != want { return out.fail(Violation::new(prop, "name-panic", "temp_file_name", format!("thread {} should have requested {} names while exiting, {} arrived", t, want, late.len()))); }
                if want > 0 { out.stats.probe("names requested from a thread-local destructor at thread exit"); }
                for name in late { all.push((*t, name)); }
            }
        }
        for f in kept_files.iter() { let _ = std::fs::remove_file(f); }
        if light {
            for (_, name) in all.iter() { digests.push(digest(name)); }
            let count = digests.len();
            digests.sort_unstable();
            if let Some(w) = digests.windows(2).find(|w| w[0] == w[1]) {
                return out.fail(Violation::new(prop, "duplicate-volume", "temp_file_name", format!("among {} names of one process two have the same 128-bit digest {:016x}{:016x}: the same path was returned twice", count, w[0].0, w[0].1)));
            }
            out.stats.probe_if(count > 1 << 24, "more than 2^24 names in one process");
        }
        let mut seen: BTreeSet<&str> = BTreeSet::new();
        for (t, name) in all.iter() {
            let part = self.parts[*t].replace("<TMP>", &tmp0.to_string_lossy());
            let found = contains_part(name, &part);
            if !found {
                return out.fail(Violation::new(prop, "name-part", "temp_file_name", format!("{:?} does not contain the caller's name part {:?}", name, part)));
            }
            if !seen.insert(name.as_str()) {
                return out.fail(Violation::new(prop, "duplicate-volume", "temp_file_name", format!("the path {:?} was returned twice ({} threads, schedule of {} steps)", name, n, self.schedule.len())));
            }
        }
        out.stats.steps = (all.len() + digests.len()) as u64;
        let quota = |t: usize| -> usize { self.schedule.iter().filter(|(u, _)| *u == t).map(|(_, k)| *k).sum() };
        let classes: Vec<u8> = (0..n).map(|t| { let c = quota(t); if c > (1 << 20) { 4 } else if c > 65_536 { 3 } else if c > 4096 { 2 } else if c > 16 { 1 } else { 0 } }).collect();
        out.stats.sigs.insert(crate::rng::fnv(format!("{:?}|{}|{}|{}", classes, self.schedule.len().min(20), late_start, exit_while_others_alive).as_bytes()));
        out.stats.fault("T2-prescribed hand-over between real threads", self.schedule.len() as u64);
        out.stats.probe_if((0..n).any(|t| quota(t) > 65_536), "a thread with more than 65536 calls");
        out.stats.probe_if((0..n).any(|t| quota(t) > (1 << 20)), "a thread with more than 2^20 calls");
        out.stats.probe_if(self.parts.iter().any(|p| p.contains('/')), "name parts that spell a path");
        out.stats.probe_if(late_start, "a thread started while others were already running");
        out.stats.probe_if(exit_while_others_alive, "a thread exited while others were still alive");
        out.stats.probe_if(alive_max >= 3, "three or more threads alive at once");
        out.stats.probe_if(n > 1024, "more than 1024 threads in one process");
        out.stats.probe_if(self.tmp_switch.len() >= 2 && self.tmp_switch.iter().any(|(at, _)| *at < self.schedule.len()), "TMPDIR moved away and back while names were handed out");
        out.stats.probe_if(self.parts.iter().any(|p| p.contains('{')), "name parts that look like format placeholders");
        out
    }

    pub fn simpler(&self) -> Vec<NameVolume> {
        let mut out = Vec::new();
        for i in 0..self.schedule.len() { if self.schedule.len() > 1 { let mut s = self.clone(); s.schedule.remove(i); out.push(s); } }
        for i in 0..self.schedule.len() {
            let k = self.schedule[i].1;
            for smaller in [1usize, k / 2, k.saturating_sub(1)] { if smaller < k && smaller > 0 { let mut s = self.clone(); s.schedule[i].1 = smaller; out.push(s); } }
        }
        // Merge two threads into one (fewer actors).
        let n = self.parts.len();
        if n > 2 { for t in 1..n { let mut s = self.clone(); for step in s.schedule.iter_mut() { if step.0 == t { step.0 = 0; } else if step.0 > t { step.0 -= 1; } } s.parts.remove(t); if t < s.exit_calls.len() { s.exit_calls.remove(t); } out.push(s); } }
        for i in 0..self.parts.len() { if self.parts[i] != "a" { let mut s = self.clone(); s.parts[i] = "a".into(); out.push(s); } }
        if !self.test_calls.is_empty() { let mut s = self.clone(); s.test_calls.clear(); out.push(s); for i in 0..self.test_calls.len() { let mut s = self.clone(); s.test_calls.remove(i); out.push(s); } }
        if !self.tmp_switch.is_empty() { let mut s = self.clone(); s.tmp_switch.clear(); out.push(s); for i in 0..self.tmp_switch.len() { let mut s = self.clone(); s.tmp_switch.remove(i); out.push(s); } }
        for i in 0..self.exit_calls.len() { if self.exit_calls[i].0 > 0 { let mut s = self.clone(); s.exit_calls[i].0 = 0; out.push(s); if self.exit_calls[i].0 > 1 { let mut s = self.clone(); s.exit_calls[i].0 = 1; out.push(s); } } }
        out
    }
}
