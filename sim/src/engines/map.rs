//! Engine `mapsim`: memory maps and mapped views against the real kernel.
//!
//! These scenarios run in child processes: a SIGSEGV / SIGBUS / abort is an observation.
//! Nothing address-dependent enters a log, an oracle or a statistic.

use serde::{Deserialize, Serialize};
use std::collections::BTreeMap;
use std::path::{Path, PathBuf};

use simple_sds::serialize::{MappingMode, MemoryMap};
use simple_sds::verif_io::{self, MapCall};

use crate::core::{catch, Outcome, Stats, Violation};
use crate::payload::{gen_payload, DynVal, Family, GenCfg, Payload, ViewResult};
#[allow(unused_imports)]
use crate::payload::Leaf;
use crate::rng::Rng;
use crate::scratch;

//-----------------------------------------------------------------------------
// /proc/self/maps

/// (start, end) of every region of this process that maps `path`.
pub fn regions_of(path: &Path) -> Vec<(usize, usize)> {
    // Lossy on both sides: a mapped file may have a name that is not UTF-8.
    let raw = std::fs::read("/proc/self/maps").unwrap_or_default();
    let text = String::from_utf8_lossy(&raw);
    let want = path.to_string_lossy();
    let mut out = Vec::new();
    for line in text.lines() {
        // address perms offset dev inode pathname
        let mut it = line.splitn(6, ' ');
        let range = it.next().unwrap_or("");
        let name = line.splitn(6, ' ').nth(5).unwrap_or("").trim_start();
        let name = name.strip_suffix(" (deleted)").unwrap_or(name);
        if name == want {
            if let Some((a, b)) = range.split_once('-') {
                if let (Ok(a), Ok(b)) = (usize::from_str_radix(a, 16), usize::from_str_radix(b, 16)) { out.push((a, b)); }
            }
        }
    }
    out
}

fn page() -> usize {
    4096
}

fn round_up_page(n: usize) -> usize {
    (n + page() - 1) / page() * page()
}

//-----------------------------------------------------------------------------
// C13 / C14e: views over a file of concatenated structures

#[derive(Clone, Debug, Serialize, Deserialize, PartialEq, Eq)]
pub enum Trunc {
    None,
    /// Every 8-byte truncation of the file.
    All,
    One(usize),
}

#[derive(Clone, Debug, Serialize, Deserialize)]
pub struct MapViews {
    pub payloads: Vec<Payload>,
    pub mutable: bool,
    pub trunc: Trunc,
    /// Also request views at offsets outside the file.
    pub bad_offsets: bool,
    /// Map the file through a symbolic link instead of its own path.
    #[serde(default)]
    pub via_symlink: bool,
    /// Mutable maps only: rewrite the file in place through the map with different values of the same sizes
    /// and create every view a second time through the same map object.
    #[serde(default)]
    pub rewrite: bool,
}

impl MapViews {
    pub fn generate(rng: &mut Rng, max_len: usize, trunc_only: bool) -> MapViews {
        let mut cfg = GenCfg::swarm(rng, Family::Mappable, max_len);
        cfg.kinds |= 0; // family decides
        let n = rng.range_usize(1, 6);
        let mut payloads: Vec<Payload> = (0..n).map(|_| gen_payload(rng, &cfg)).collect();
        // Over-represent empty structures, in particular as the last one in the file.
        if rng.chance(1, 3) {
            let last = payloads.len() - 1;
            payloads[last].leaf = empty_variant(&payloads[last].leaf);
        }
        if rng.chance(1, 4) {
            let i = rng.below_usize(payloads.len());
            payloads[i].leaf = empty_variant(&payloads[i].leaf);
        }
        let mutable = rng.chance(1, 4);
        MapViews { payloads, mutable, trunc: Trunc::All, bad_offsets: !trunc_only, via_symlink: rng.chance(1, 5), rewrite: mutable && rng.chance(2, 3) }
    }

    /// One dense raw vector with more than 2^32 set bits (a body above 512 MiB): counters and offsets that were
    /// given 32 bits somewhere show only here. No truncation sweep; the views of the complete file only.
    pub fn generate_giant(rng: &mut Rng) -> MapViews {
        let len = (1usize << 32) + *rng.pick(&[64usize, 1, 4096 + 13]);
        let c = crate::content::Content { len, pat: *rng.pick(&[crate::content::Pat::Ones, crate::content::Pat::Ones, crate::content::Pat::AllButOne]), salt: 0 };
        let mut payloads = vec![Payload::plain(Leaf::Raw { c, route: 0 })];
        if rng.bool() { payloads.insert(0, Payload::plain(Leaf::VecU64(crate::content::Content { len: 3, pat: crate::content::Pat::Counter, salt: 1 }))); }
        MapViews { payloads, mutable: false, trunc: Trunc::None, bad_offsets: true, via_symlink: false, rewrite: false }
    }

    pub fn run(&self, prop: &str) -> Outcome {
        let mut out = Outcome::default();
        let v = |clause: &str, site: &str, msg: String| Violation::new(prop, clause, site, msg);
        let mut vals: Vec<Box<dyn DynVal>> = Vec::new();
        for p in self.payloads.iter() {
            if !p.mappable() { return out.fail(v("harness", "payload", format!("{} has no mapped counterpart", p.describe()))); }
            match catch(|| p.build()) { Ok(x) => vals.push(x), Err(m) => return out.fail(v("harness", "build", m)) }
        }
        let mut bytes: Vec<u8> = Vec::new();
        let mut ledger = vec![0usize];
        for val in vals.iter() {
            match val.serialize_vec() { Ok(b) => bytes.extend_from_slice(&b), Err(e) => return out.fail(v("harness", "serialize", e.to_string())) }
            ledger.push(bytes.len() / 8);
        }
        let total = bytes.len() / 8;
        let data_path = scratch::file("views");
        // The path handed to MemoryMap::new: the file itself or a symbolic link to it (the link's own length is unrelated).
        let path = if self.via_symlink {
            let link = scratch::file("views-link-with-a-rather-long-name");
            let _ = std::fs::remove_file(&link);
            if std::os::unix::fs::symlink(&data_path, &link).is_err() { data_path.clone() } else { out.stats.probe("file mapped through a symbolic link"); link }
        } else { data_path.clone() };
        let mode = if self.mutable { MappingMode::Mutable } else { MappingMode::ReadOnly };
        out.stats.probe_if(self.payloads.iter().any(|p| matches!(&p.leaf, Leaf::Raw { c, .. } if c.len > 1 << 32)), "raw vector of more than 2^32 bits mapped");
        let result = self.run_inner(prop, &vals, &bytes, &ledger, total, &data_path, &path, mode, &mut out.stats);
        let _ = std::fs::remove_file(&data_path);
        if path != data_path { let _ = std::fs::remove_file(&path); }
        match result { Ok(()) => out, Err(viol) => out.fail(viol) }
    }

    #[allow(clippy::too_many_arguments)]
    fn run_inner(&self, prop: &str, vals: &[Box<dyn DynVal>], bytes: &[u8], ledger: &[usize], total: usize, data_path: &Path, path: &Path, mode: MappingMode, stats: &mut Stats) -> Result<(), Violation> {
        let v = |clause: &str, site: &str, msg: String| Violation::new(prop, clause, site, msg);
        let desc = |i: usize| self.payloads[i].describe();

        if self.trunc == Trunc::None || self.trunc == Trunc::All {
            // The complete file.
            std::fs::write(data_path, bytes).map_err(|e| v("harness", "write", e.to_string()))?;
            #[allow(unused_mut)]
            let mut map = MemoryMap::new(path, mode).map_err(|e| v("map-error", "MemoryMap::new", format!("mapping a healthy file of {} bytes failed: {}", bytes.len(), e)))?;
            stats.evaluations += 1;
            stats.steps += 2;
            if map.len() != total { return Err(v("map-len", "MemoryMap::len", format!("map.len() = {}, file has {} elements", map.len(), total))); }
            for (i, val) in vals.iter().enumerate() {
                let tn = val.type_name();
                match catch(|| val.view(&map, ledger[i])) {
                    Ok(ViewResult::Ok(off, len)) => {
                        if off != ledger[i] { return Err(v("map-offset", tn, format!("structure {} ({}): map_offset() = {}, created at {}", i, desc(i), off, ledger[i]))); }
                        if off + len != ledger[i + 1] { return Err(v("tiling", tn, format!("structure {} ({}): map_offset {} + map_len {} = {}, next structure starts at {}", i, desc(i), off, len, off + len, ledger[i + 1]))); }
                    },
                    Ok(ViewResult::Differs(m)) => return Err(v("view-content", tn, format!("structure {} ({}) at offset {}: {}", i, desc(i), ledger[i], m))),
                    Ok(ViewResult::Refused(m)) => return Err(v("view-refused", tn, format!("structure {} ({}) at its own offset {} was refused: {}", i, desc(i), ledger[i], m))),
                    Err(p) => return Err(v("view-panic", tn, format!("structure {} ({}) at offset {}: {}", i, desc(i), ledger[i], p))),
                }
                stats.probe_if(i + 1 == vals.len() && ledger[i + 1] - ledger[i] <= 4 && self.payloads[i].opt == 0, "empty or tiny structure at end of file");
                stats.probe_if(self.payloads[i].opt > 0 && self.payloads[i].none_at.is_none() && crate::payload::Payload::plain(self.payloads[i].leaf.clone()).build().size_in_elements() <= 4, "option holding an empty structure");
            }
            if self.bad_offsets {
                let n = map.len();
                let offsets = [n, n + 1, 2 * n, 1usize << 63, usize::MAX - 1, usize::MAX];
                for (i, val) in vals.iter().enumerate() {
                    let tn = val.type_name();
                    for off in offsets {
                        stats.steps += 1;
                        match catch(|| val.view(&map, off)) {
                            Ok(ViewResult::Refused(_)) => {},
                            Ok(other) => return Err(v("refuse-offset", tn, format!("view of type {} at offset {} (file has {} elements) was not refused: {:?}", desc(i), off, n, other))),
                            Err(p) => return Err(v("refuse-offset-panic", tn, format!("view of type {} at offset {} (file has {} elements) panicked instead of returning an error: {}", tn, off, n, p))),
                        }
                    }
                }
                stats.probe("offsets outside the file requested");
            }
            if self.mutable && self.rewrite {
                // Second use of the same map object: the file is rewritten in place (same sizes, other values, other
                // string lengths where the padding allows), then every view is created again.
                let sib: Vec<Payload> = self.payloads.iter().map(|p| p.sibling()).collect();
                let mut svals: Vec<Box<dyn DynVal>> = Vec::new();
                for p in sib.iter() { match catch(|| p.build()) { Ok(x) => svals.push(x), Err(m) => return Err(v("harness", "build", m)) } }
                let same_sizes = svals.iter().zip(vals.iter()).all(|(a, b)| a.size_in_elements() == b.size_in_elements());
                if same_sizes {
                    let mut sbytes: Vec<u8> = Vec::new();
                    for val in svals.iter() { match val.serialize_vec() { Ok(b) => sbytes.extend_from_slice(&b), Err(e) => return Err(v("harness", "serialize", e.to_string())) } }
                    if sbytes.len() == bytes.len() {
                        {
                            let slice = unsafe { map.as_mut_slice() };
                            for (i, w) in slice.iter_mut().enumerate() { *w = u64::from_le_bytes(sbytes[8 * i..8 * i + 8].try_into().unwrap()); }
                        }
                        for (i, val) in svals.iter().enumerate() {
                            let tn = val.type_name();
                            match catch(|| val.view(&map, ledger[i])) {
                                Ok(ViewResult::Ok(off, len)) if off == ledger[i] && off + len == ledger[i + 1] => {},
                                Ok(ViewResult::Ok(off, len)) => return Err(v("tiling", tn, format!("second view of structure {} after an in-place rewrite: map_offset {} + map_len {} != {}", i, off, len, ledger[i + 1]))),
                                Ok(ViewResult::Differs(m)) => return Err(v("view-content-after-rewrite", tn, format!("structure {} ({}) was rewritten in place through the mutable map to {}; a view created afterwards through the same map still shows something else: {}", i, desc(i), sib[i].describe(), m))),
                                Ok(ViewResult::Refused(m)) => return Err(v("view-refused", tn, format!("second view of structure {} after a valid in-place rewrite was refused: {}", i, m))),
                                Err(p) => return Err(v("view-panic", tn, format!("second view of structure {}: {}", i, p))),
                            }
                        }
                        stats.probe("views created again after an in-place rewrite through the same map");
                    }
                }
            }
            drop(map);
            let left = regions_of(data_path);
            if !left.is_empty() { stats.probe("mapping left behind after drop (judged by C18, not here)"); }
            // A string some other writer got wrong: its bytes are all there but are not UTF-8. Loading refuses it
            // (InvalidData); a view that exposes "exactly what loading would give" cannot call it absent or valid.
            if bytes.len() < (1 << 20) {
                if let Some(i) = (0..vals.len()).find(|i| matches!(&self.payloads[*i].leaf, Leaf::Str(c) if c.len >= 1) && self.payloads[*i].none_at.is_none()) {
                    let at = 8 * (ledger[i] + self.payloads[i].opt as usize + 1);
                    let mut bad = bytes.to_vec();
                    bad[at] = 0xFF;
                    let mut tail = &bad[8 * ledger[i]..];
                    if vals[i].load_slice(&mut tail).is_err() {
                        std::fs::write(data_path, &bad).map_err(|e| v("harness", "write", e.to_string()))?;
                        let map = MemoryMap::new(path, MappingMode::ReadOnly).map_err(|e| v("map-error", "MemoryMap::new", e.to_string()))?;
                        match catch(|| vals[i].view(&map, ledger[i])) {
                            Ok(ViewResult::Refused(_)) => stats.probe("view of a string that is not UTF-8 refused, as loading refuses it"),
                            Ok(other) => return Err(v("view-of-unloadable", vals[i].type_name(), format!("structure {} ({}) holds bytes that are not UTF-8: loading fails, the view says {:?}", i, desc(i), other))),
                            Err(p) => return Err(v("view-panic", vals[i].type_name(), format!("structure {} ({}) with invalid UTF-8: {}", i, desc(i), p))),
                        }
                        drop(map);
                        std::fs::write(data_path, bytes).map_err(|e| v("harness", "write", e.to_string()))?;
                    }
                }
            }
        }

        // Torn files.
        // Every cut for files up to 600 elements; for larger files every cut within 3 elements of a structure
        // boundary or of a page boundary, plus an even spread of 64.
        let cuts: Vec<usize> = match self.trunc {
            Trunc::None => vec![],
            Trunc::All if total <= 600 => (0..total).collect(),
            Trunc::All => {
                let mut c: Vec<usize> = Vec::new();
                for b in ledger.iter() { for d in 0..=3usize { if *b >= d { c.push(b - d); } c.push(b + d); } }
                let mut pg = 512usize; while pg < total + 512 { for d in 0..=2usize { if pg >= d { c.push(pg - d); } c.push(pg + d); } pg += 512; }
                for j in 0..64usize { c.push(j * total / 64); }
                c.retain(|t| *t < total); c.sort_unstable(); c.dedup();
                stats.probe("file larger than 600 elements: truncations sampled at structure and page boundaries");
                c
            },
            Trunc::One(t) => if t < total { vec![t] } else { vec![] },
        };
        for t in cuts {
            std::fs::write(data_path, &bytes[..8 * t]).map_err(|e| v("harness", "write", e.to_string()))?;
            stats.evaluations += 1;
            stats.steps += 2;
            stats.fault("M5-torn-file", 1);
            stats.sigs.insert(crate::rng::mix(&[t as u64, total as u64, ledger.iter().position(|o| *o >= t).unwrap_or(0) as u64, vals.len() as u64]));
            verif_io::start_map_log();
            let map = MemoryMap::new(path, mode);
            let log = verif_io::take_map_log();
            let map = match map {
                Ok(m) => m,
                Err(_) => { if t == 0 { stats.probe("empty file refused by MemoryMap::new"); continue; } return Err(v("map-error", "MemoryMap::new", format!("mapping a file of {} bytes failed", 8 * t))); },
            };
            if log.iter().any(|c| matches!(c, MapCall::Map { addr, .. } if *addr == usize::MAX)) {
                // mmap() failed (empty file) yet a map came back. Touching it would be undefined; C18 judges this.
                stats.probe("MemoryMap::new returned Ok although mmap() failed (judged by C18, not here)");
                std::mem::forget(map);
                continue;
            }
            if map.len() != t { return Err(v("map-len", "MemoryMap::len", format!("map.len() = {}, file has {} elements", map.len(), t))); }
            for (i, val) in vals.iter().enumerate() {
                let tn = val.type_name();
                let intact = ledger[i + 1] <= t;
                let r = catch(|| val.view(&map, ledger[i]));
                if intact {
                    match r {
                        Ok(ViewResult::Ok(off, len)) if off == ledger[i] && off + len == ledger[i + 1] => {},
                        other => return Err(v("trunc-intact", tn, format!("file cut at element {}: structure {} ({}) lies wholly before the cut but its view gives {:?}", t, i, desc(i), other))),
                    }
                } else {
                    let inside = ledger[i] < t;
                    stats.probe_if(inside && t == ledger[i] + 1, "truncation exactly after a length element");
                    stats.probe_if(inside, "truncation inside a structure");
                    match r {
                        Ok(ViewResult::Refused(_)) => {},
                        // A partial view cannot see a cut behind the part it maps; only a cut inside that part obliges it to refuse.
                        Ok(_) if self.payloads[i].partial_view() => { stats.probe("partial view over a cut structure (not judged)"); },
                        Ok(other) => return Err(v("map-trunc", tn, format!("file cut at element {} of {}: structure {} ({}) spans elements {}..{} and is cut short, but its view was not refused: {:?}", t, total, i, desc(i), ledger[i], ledger[i + 1], other))),
                        Err(p) => return Err(v("map-trunc-panic", tn, format!("file cut at element {} of {}: view of structure {} ({}) at {} panicked: {}", t, total, i, desc(i), ledger[i], p))),
                    }
                }
            }
            drop(map);
        }
        Ok(())
    }

    pub fn narrow_candidates(&self) -> Vec<MapViews> {
        if self.trunc != Trunc::All { return Vec::new(); }
        let mut out = Vec::new();
        // Does the complete file already fail?
        let mut whole = self.clone();
        whole.trunc = Trunc::None;
        out.push(whole);
        let total: usize = self.payloads.iter().map(|p| catch(|| p.build().size_in_elements()).unwrap_or(0)).sum();
        for t in 0..total {
            let mut one = self.clone();
            one.trunc = Trunc::One(t);
            one.bad_offsets = false;
            out.push(one);
        }
        out
    }

    pub fn simpler(&self) -> Vec<MapViews> {
        let mut out = Vec::new();
        if self.payloads.len() > 1 { for i in 0..self.payloads.len() { let mut s = self.clone(); s.payloads.remove(i); out.push(s); } }
        if self.bad_offsets && self.trunc != Trunc::None { let mut s = self.clone(); s.trunc = Trunc::None; out.push(s); }
        if self.bad_offsets { let mut s = self.clone(); s.bad_offsets = false; out.push(s); }
        if self.mutable { let mut s = self.clone(); s.mutable = false; s.rewrite = false; out.push(s); }
        if self.rewrite { let mut s = self.clone(); s.rewrite = false; out.push(s); }
        if self.via_symlink { let mut s = self.clone(); s.via_symlink = false; out.push(s); }
        for i in 0..self.payloads.len() { for p in self.payloads[i].simpler() { if p.mappable() { let mut s = self.clone(); s.payloads[i] = p; out.push(s); } } }
        if let Trunc::One(t) = self.trunc { for tt in [0, t / 2, t.saturating_sub(1)] { if tt < t { let mut s = self.clone(); s.trunc = Trunc::One(tt); out.push(s); } } }
        out
    }
}

#[allow(dead_code)]
fn _doc() {}

fn empty_variant(leaf: &crate::payload::Leaf) -> crate::payload::Leaf {
    use crate::payload::Leaf;
    let e = |c: &crate::content::Content| crate::content::Content { len: 0, ..c.clone() };
    match leaf {
        Leaf::VecU64(c) => Leaf::VecU64(e(c)),
        Leaf::VecUsize(c) => Leaf::VecUsize(e(c)),
        Leaf::VecPair(c) => Leaf::VecPair(e(c)),
        Leaf::VecTriple(c) => Leaf::VecTriple(e(c)),
        Leaf::Bytes(c) => Leaf::Bytes(e(c)),
        Leaf::Str(c) => Leaf::Str(e(c)),
        Leaf::Raw { c, route } => Leaf::Raw { c: e(c), route: *route },
        Leaf::Int { c, width } => Leaf::Int { c: e(c), width: *width },
        other => other.clone(),
    }
}

//-----------------------------------------------------------------------------
// C18: life cycle of memory maps

#[derive(Clone, Debug, Serialize, Deserialize, PartialEq, Eq)]
pub enum FileSpec {
    /// A file of this many bytes.
    Size(u64),
    /// A sparse file of this many bytes (created with `set_len`).
    Sparse(u64),
    /// No such file.
    Missing,
    /// A directory (opens read-only, has a size, cannot be mapped).
    Dir,
    /// A file of this many bytes that is unlinked while the harness holds it open; it is mapped through /proc/self/fd/N.
    Unlinked(u64),
    /// A copy of an executable, padded to a multiple of 8 bytes, that is running as a child process: nobody,
    /// not even root, can open it for writing (ETXTBSY), but it can be mapped read-only.
    BusyExe,
    /// A file of this many bytes with mode 0444. A privileged process can still open it for writing; whoever
    /// returns a mutable map of it owes the file the changes, and refusing the mutable map is a loud answer.
    ReadOnly(u64),
}

#[derive(Clone, Debug, Serialize, Deserialize, PartialEq, Eq)]
pub enum LOp {
    /// Map `file`; `refuse`: make `mmap` fail with this errno (M1; -1 = a real refusal provoked with RLIMIT_AS);
    /// `sticky`: every mmap call during this `MemoryMap::new` is refused, not only the first.
    Map { file: usize, mutable: bool, refuse: Option<i32>, #[serde(default)] sticky: bool },
    /// Compare the whole slice of the map in `slot` with the file content.
    Read { slot: usize },
    /// Write `n` elements through the mutable map in `slot`.
    Write { slot: usize, n: usize, salt: u64 },
    Drop { slot: usize },
    /// Append this many 8-byte elements to `file` (maps that are alive keep their length; later maps see the new one).
    #[serde(alias = "Grow")]
    Grow { file: usize, words: usize },
}

#[derive(Clone, Debug, Serialize, Deserialize)]
pub struct MapLife {
    pub files: Vec<FileSpec>,
    pub ops: Vec<LOp>,
    /// The working directory of the process has been removed and the files are named by `..`-relative paths.
    #[serde(default)]
    pub cwd_removed: bool,
    /// With `cwd_removed`: name the files by their absolute paths anyway (only the process state is unusual).
    #[serde(default)]
    pub cwd_absolute: bool,
    /// Maps are dropped because a panic unwinds through the scope that owns them.
    #[serde(default)]
    pub unwind_drops: bool,
    /// The file names contain bytes that are not UTF-8 (legal on Linux); in every second file's directory a
    /// decoy with the lossy spelling of the name and other content exists as well.
    #[serde(default)]
    pub odd_names: bool,
    /// Somebody else (another open file description) holds an exclusive advisory lock on every plain file.
    #[serde(default)]
    pub locked: bool,
    /// The files are named `<base>/a/link/../life-N` where `link` is a symbolic link to the directory `<base>/b/c`:
    /// the operating system resolves that to `<base>/b/life-N`; a decoy `<base>/a/life-N` with other content exists.
    #[serde(default)]
    pub dotdot_link: bool,
}

/// Drops a live map, either normally or by letting an unrelated panic unwind through the scope that owns it.
fn drop_map(l: Live, unwinding: bool) -> Result<(), String> {
    if unwinding {
        match catch(move || { let _in_scope = l; if true { panic!("sdsim: unrelated panic while a map is in scope"); } }) {
            Err(ref m) if m.contains("unrelated panic while a map is in scope") => Ok(()),
            Err(p) => Err(p),
            Ok(()) => Ok(()),
        }
    } else {
        catch(move || drop(l))
    }
}

/// Children that keep an executable busy; killed when the scenario ends, however it ends.
struct BusyGuard(Vec<std::process::Child>);

impl Drop for BusyGuard {
    fn drop(&mut self) {
        for c in self.0.iter_mut() { let _ = c.kill(); let _ = c.wait(); }
    }
}

struct Live {
    map: MemoryMap,
    file: usize,
    mutable: bool,
    /// Size of the file in bytes when the map was created.
    bytes: u64,
}

impl MapLife {
    pub fn generate(rng: &mut Rng, big: bool) -> MapLife {
        let sizes: [u64; 14] = [0, 8, 16, 4088, 4096, 4104, 8192, 12288, 32768, 32776, 1 << 20, (1 << 20) + 8, 5, 4100];
        let nfiles = rng.range_usize(1, 3);
        let mut files = Vec::new();
        for _ in 0..nfiles {
            files.push(match rng.below(22) {
                0 => FileSpec::Missing,
                20 => FileSpec::Dir,
                21 => match rng.below(3) { 0 => FileSpec::Unlinked(*rng.pick(&[8u64, 4096, 4104, 32776])), 1 => FileSpec::BusyExe, _ => FileSpec::ReadOnly(*rng.pick(&[8u64, 4096, 4104, 32776])) },
                1 | 4 if big => FileSpec::Sparse(*rng.pick(&[64u64 << 20, (64 << 20) + 4104, 1 << 30, 1 << 30, (5u64 << 30) + 4104])),
                // Tens of megabytes (where huge-page or chunked mapping strategies start), cheap because sparse.
                1 => FileSpec::Sparse(*rng.pick(&[(16u64 << 20) + 3 * 4096 + 40, 16 << 20, (32 << 20) + 8, (64 << 20) + 4104])),
                2 => FileSpec::Size(8 * rng.range(0, 5000)),
                3 => FileSpec::Size(rng.range(1, 9000)),
                _ => FileSpec::Size(*rng.pick(&sizes)),
            });
        }
        let nops = if rng.chance(1, 10) { rng.range_usize(20, if big { 400 } else { 120 }) } else { rng.range_usize(1, 14) };
        let mut ops = Vec::new();
        let mut slots = 0usize; // number of Map ops so far = number of slots (dead or alive)
        for _ in 0..nops {
            let op = match rng.below(10) {
                0..=3 => { slots += 1; LOp::Map { file: rng.below_usize(nfiles), mutable: rng.chance(2, 5), refuse: if rng.chance(1, 8) { Some(*rng.pick(&[libc::ENOMEM, libc::EAGAIN, libc::ENFILE, libc::EACCES, libc::ENODEV, libc::EINVAL])) } else if big && rng.chance(1, 8) { Some(-1) } else { None }, sticky: rng.bool() } },
                4 | 5 if slots > 0 => LOp::Read { slot: rng.below_usize(slots) },
                6 if slots > 0 && rng.chance(3, 4) => LOp::Write { slot: rng.below_usize(slots), n: rng.range_usize(1, 40), salt: rng.next() & 0xFFFF },
                6 => LOp::Grow { file: rng.below_usize(nfiles), words: *rng.pick(&[1usize, 3, 511, 512, 513, 5000]) },
                _ if slots > 0 => LOp::Drop { slot: rng.below_usize(slots) },
                _ => { slots += 1; LOp::Map { file: rng.below_usize(nfiles), mutable: rng.bool(), refuse: None, sticky: false } },
            };
            ops.push(op);
        }
        MapLife { files, ops, cwd_removed: rng.chance(1, 10), cwd_absolute: rng.bool(), unwind_drops: rng.chance(1, 5), odd_names: rng.chance(1, 12), locked: rng.chance(1, 10), dotdot_link: rng.chance(1, 12) }
    }

    pub fn run(&self, prop: &str) -> Outcome {
        let mut out = Outcome::default();
        out.stats.evaluations = 1;
        // With `cwd_removed` the files live in <scratch>/cwdN/ and the process sits in the removed directory <scratch>/cwdN/gone.
        let (paths, base): (Vec<PathBuf>, Option<PathBuf>) = if self.cwd_removed {
            let base = scratch::file("cwd");
            let gone = base.join("gone");
            if std::fs::create_dir_all(&gone).is_ok() && std::env::set_current_dir(&gone).is_ok() && std::fs::remove_dir(&gone).is_ok() {
                out.stats.probe("working directory removed, files named by relative paths");
                ((0..self.files.len()).map(|i| base.join(format!("life-{}", i))).collect(), Some(base))
            } else { let _ = std::env::set_current_dir(scratch::dir()); (self.files.iter().map(|_| scratch::file("life")).collect(), None) }
        } else { (self.files.iter().map(|_| scratch::file("life")).collect(), None) };
        let mut decoys: Vec<PathBuf> = Vec::new();
        let mut map_override: Option<Vec<PathBuf>> = None;
        let mut dd_base: Option<PathBuf> = None;
        let paths: Vec<PathBuf> = if self.dotdot_link && base.is_none() {
            let b = scratch::file("dd");
            let ok = std::fs::create_dir_all(b.join("a")).is_ok() && std::fs::create_dir_all(b.join("b").join("c")).is_ok() && std::os::unix::fs::symlink(b.join("b").join("c"), b.join("a").join("link")).is_ok();
            if ok {
                out.stats.probe("path with .. after a symbolic link to a directory");
                let real: Vec<PathBuf> = (0..self.files.len()).map(|i| b.join("b").join(format!("life-{}", i))).collect();
                map_override = Some((0..self.files.len()).map(|i| b.join("a").join("link").join("..").join(format!("life-{}", i))).collect());
                for i in 0..self.files.len() { let d = b.join("a").join(format!("life-{}", i)); if std::fs::write(&d, vec![0x5Au8; 24]).is_ok() { decoys.push(d); } }
                dd_base = Some(b);
                real
            } else { let _ = std::fs::remove_dir_all(&b); paths }
        } else { paths };
        let paths: Vec<PathBuf> = if self.odd_names && map_override.is_none() {
            use std::os::unix::ffi::{OsStrExt, OsStringExt};
            out.stats.probe("file names that are not UTF-8");
            paths.iter().enumerate().map(|(i, p)| {
                let mut name = p.file_name().unwrap().as_bytes().to_vec();
                name.extend_from_slice(b"-\xff\xfe");
                let odd = p.with_file_name(std::ffi::OsString::from_vec(name));
                if i % 2 == 0 {
                    let decoy = p.with_file_name(odd.file_name().unwrap().to_string_lossy().into_owned());
                    if std::fs::write(&decoy, vec![0x5Au8; 24]).is_ok() { decoys.push(decoy); }
                }
                odd
            }).collect()
        } else { paths };
        let r = self.run_inner(prop, &paths, base.is_some() && !self.cwd_absolute, map_override, &mut out.stats);
        if let Some(b) = dd_base { for p in paths.iter() { let _ = std::fs::remove_file(p); let _ = std::fs::remove_dir(p); } let _ = std::fs::remove_dir_all(&b); }
        if let Some(b) = base { let _ = std::env::set_current_dir(scratch::dir()); for p in paths.iter() { let _ = std::fs::remove_file(p); let _ = std::fs::remove_dir(p); } let _ = std::fs::remove_dir_all(&b); }
        for p in paths.iter().chain(decoys.iter()) { let _ = std::fs::remove_file(p); let _ = std::fs::remove_dir(p); }
        match r { Ok(()) => out, Err(viol) => out.fail(viol) }
    }

    fn run_inner(&self, prop: &str, paths: &[PathBuf], relative: bool, map_override: Option<Vec<PathBuf>>, stats: &mut Stats) -> Result<(), Violation> {
        let v = |clause: &str, site: &str, msg: String| Violation::new(prop, clause, site, msg);
        // The address-space oracle needs /proc/self/maps; without it nothing can be judged.
        if !std::fs::read("/proc/self/maps").map(|t| t.iter().filter(|b| **b == b'\n').count() > 3).unwrap_or(false) {
            return Err(v("harness", "/proc/self/maps", "cannot read /proc/self/maps: the address space cannot be observed here".into()));
        }
        // Create the files and the model of their content.
        let mut model: Vec<Option<Vec<u8>>> = Vec::new();
        let mut sparse_len: Vec<Option<u64>> = Vec::new();
        // What is passed to MemoryMap::new (differs from `paths`, the name in /proc/self/maps, for unlinked files).
        let mut map_paths: Vec<PathBuf> = if let Some(m) = map_override { m } else if relative { paths.iter().map(|p| PathBuf::from("..").join(p.file_name().unwrap())).collect() } else { paths.to_vec() };
        let mut lock_holders: Vec<std::fs::File> = Vec::new();
        let mut held: Vec<Option<std::fs::File>> = Vec::new();
        let mut busy = BusyGuard(Vec::new());
        for (i, f) in self.files.iter().enumerate() {
            held.push(None);
            match f {
                FileSpec::Missing => { let _ = std::fs::remove_file(&paths[i]); model.push(None); sparse_len.push(None); },
                FileSpec::BusyExe => {
                    // Copy a small executable, pad it, run the copy: the file is then busy as program text.
                    let src = ["/bin/sleep", "/usr/bin/sleep"].iter().map(std::path::Path::new).find(|p| p.exists());
                    let mut content = src.and_then(|p| std::fs::read(p).ok()).unwrap_or_default();
                    while content.len() % 8 != 0 { content.push(0); }
                    let started = !content.is_empty() && std::fs::write(&paths[i], &content).is_ok() && {
                        use std::os::unix::fs::PermissionsExt;
                        let _ = std::fs::set_permissions(&paths[i], std::fs::Permissions::from_mode(0o700));
                        match std::process::Command::new(&paths[i]).arg("600").stdin(std::process::Stdio::null()).stdout(std::process::Stdio::null()).stderr(std::process::Stdio::null()).spawn() { Ok(c) => { busy.0.push(c); true }, Err(_) => false }
                    };
                    if started { stats.probe("file busy as the text of a running program"); model.push(Some(content)); } else { let _ = std::fs::remove_file(&paths[i]); model.push(None); }
                    sparse_len.push(None);
                },
                FileSpec::Dir => { std::fs::create_dir_all(&paths[i]).map_err(|e| v("harness", "mkdir", e.to_string()))?; model.push(None); sparse_len.push(None); },
                FileSpec::Unlinked(n) => {
                    use std::os::fd::AsRawFd;
                    let c = crate::content::Content::new(*n as usize, crate::content::Pat::Random, 91 + i as u64).bytes();
                    std::fs::write(&paths[i], &c).map_err(|e| v("harness", "write", e.to_string()))?;
                    let f = std::fs::OpenOptions::new().read(true).write(true).open(&paths[i]).map_err(|e| v("harness", "open", e.to_string()))?;
                    std::fs::remove_file(&paths[i]).map_err(|e| v("harness", "unlink", e.to_string()))?;
                    map_paths[i] = PathBuf::from(format!("/proc/self/fd/{}", f.as_raw_fd()));
                    held[i] = Some(f);
                    model.push(Some(c)); sparse_len.push(None);
                },
                FileSpec::Size(n) => {
                    let c = crate::content::Content::new(*n as usize, crate::content::Pat::Random, 17 + i as u64).bytes();
                    std::fs::write(&paths[i], &c).map_err(|e| v("harness", "write", e.to_string()))?;
                    if self.locked {
                        use std::os::fd::AsRawFd;
                        if let Ok(h) = std::fs::File::open(&paths[i]) { if unsafe { libc::flock(h.as_raw_fd(), libc::LOCK_EX | libc::LOCK_NB) } == 0 { lock_holders.push(h); stats.probe("file under somebody else's exclusive advisory lock"); } }
                    }
                    model.push(Some(c)); sparse_len.push(None);
                },
                FileSpec::ReadOnly(n) => {
                    use std::os::unix::fs::PermissionsExt;
                    let c = crate::content::Content::new(*n as usize, crate::content::Pat::Random, 29 + i as u64).bytes();
                    std::fs::write(&paths[i], &c).map_err(|e| v("harness", "write", e.to_string()))?;
                    std::fs::set_permissions(&paths[i], std::fs::Permissions::from_mode(0o444)).map_err(|e| v("harness", "chmod", e.to_string()))?;
                    stats.probe("write-protected file (mode 0444)");
                    model.push(Some(c)); sparse_len.push(None);
                },
                FileSpec::Sparse(n) => {
                    let f = std::fs::File::create(&paths[i]).map_err(|e| v("harness", "create", e.to_string()))?;
                    f.set_len(*n).map_err(|e| v("harness", "set_len", e.to_string()))?;
                    model.push(Some(Vec::new())); sparse_len.push(Some(*n));
                },
            }
        }
        let mut cur_size: Vec<Option<u64>> = self.files.iter().enumerate().map(|(i, f)| match f { FileSpec::Missing | FileSpec::Dir => None, FileSpec::BusyExe => model[i].as_ref().map(|m| m.len() as u64), FileSpec::Size(n) | FileSpec::Sparse(n) | FileSpec::Unlinked(n) | FileSpec::ReadOnly(n) => Some(*n) }).collect();
        let mut slots: Vec<Option<Live>> = Vec::new();
        let mut sig: u64 = 0;

        let check_regions = |slots: &Vec<Option<Live>>, step: &str| -> Result<(), Violation> {
            for (fi, path) in paths.iter().enumerate() {
                let regions = regions_of(path);
                let live: Vec<&Live> = slots.iter().filter_map(|s| s.as_ref()).filter(|l| l.file == fi).collect();
                let mapped: usize = regions.iter().map(|(a, b)| b - a).sum();
                let want: usize = live.iter().map(|l| round_up_page(l.bytes as usize / 8 * 8)).sum();
                if live.is_empty() && mapped != 0 {
                    return Err(v("still-mapped-after-drop", "MemoryMap::drop", format!("after {}: no map of file {} ({:?}) is alive, but {} bytes of it are still mapped in {} region(s)", step, fi, self.files[fi], mapped, regions.len())));
                }
                // A live map of an empty file may legitimately hold a page (an implementation may map one byte).
                // Fewer bytes than that are fine too: maps of one file may share a mapping. What every live map needs
                // is checked below (its slice lies inside a region of the file); what must not happen is a surplus.
                let slack: usize = live.iter().filter(|l| l.map.len() == 0).count() * page();
                if mapped > want + slack {
                    return Err(v("mapped-bytes", "MemoryMap", format!("after {}: {} live map(s) of file {} ({:?}) should cover {} bytes, /proc/self/maps shows {} bytes", step, live.len(), fi, self.files[fi], want, mapped)));
                }
                for l in live.iter() {
                    if l.map.len() == 0 { continue; }
                    let slice: &[u64] = l.map.as_ref();
                    let a = slice.as_ptr() as usize;
                    let b = a + slice.len() * 8;
                    if !regions.iter().any(|(s, e)| *s <= a && b <= *e) {
                        return Err(v("slice-not-mapped", "MemoryMap::as_ref", format!("after {}: the slice of a live map of file {} is not inside a region mapping that file", step, fi)));
                    }
                }
            }
            Ok(())
        };

        let check_content = |l: &Live, model: &Vec<Option<Vec<u8>>>, step: &str| -> Result<(), Violation> {
            let slice: &[u64] = l.map.as_ref();
            if (slice.as_ptr() as usize) % 8 != 0 { return Err(v("slice-unaligned", "MemoryMap::as_ref", format!("after {}: slice pointer is not 8-byte aligned", step))); }
            let expect_len = l.bytes as usize / 8;
            if slice.len() != expect_len || l.map.len() != expect_len || l.map.is_empty() != (expect_len == 0) {
                return Err(v("map-len", "MemoryMap::len", format!("after {}: len() = {}, slice has {} elements, file has {}", step, l.map.len(), slice.len(), expect_len)));
            }
            if let Some(n) = sparse_len[l.file] {
                // Sparse file: check the ends and a few pages (all zero unless written).
                let m = model[l.file].as_ref().unwrap();
                let _ = n;
                for idx in [0usize, 1, 511, 512, expect_len / 2, expect_len - 2, expect_len - 1] {
                    if idx < expect_len {
                        let want = if 8 * idx + 8 <= m.len() { u64::from_le_bytes(m[8 * idx..8 * idx + 8].try_into().unwrap()) } else { 0 };
                        if slice[idx] != want { return Err(v("content", "MemoryMap::as_ref", format!("after {}: element {} of a sparse file differs", step, idx))); }
                    }
                }
                return Ok(());
            }
            let m = model[l.file].as_ref().unwrap();
            if m.len() < 8 * slice.len() { return Err(v("map-len", "MemoryMap::len", format!("after {}: the map has {} elements, the file only {} bytes", step, slice.len(), m.len()))); }
            for (idx, x) in slice.iter().enumerate() {
                let want = u64::from_le_bytes(m[8 * idx..8 * idx + 8].try_into().unwrap());
                if *x != want { return Err(v("content", "MemoryMap::as_ref", format!("after {}: element {} of file {} is {:#x} in the map, {:#x} in the file", step, idx, l.file, x, want))); }
            }
            Ok(())
        };

        for (k, op) in self.ops.iter().enumerate() {
            let step = format!("op {} {:?}", k, op);
            stats.steps += 1;
            sig = crate::rng::mix(&[sig, match op { LOp::Map { mutable, refuse, file, sticky } => 1 + (*mutable as u64) * 2 + (refuse.is_some() as u64) * 4 + 8 * file_class(&self.files[*file]) + 1000 * (*sticky && refuse.is_some()) as u64, LOp::Read { .. } => 100, LOp::Write { .. } => 101, LOp::Drop { .. } => 102, LOp::Grow { .. } => 103 }]);
            match op {
                LOp::Map { file, mutable, refuse, sticky } => {
                    let mode = if *mutable { MappingMode::Mutable } else { MappingMode::ReadOnly };
                    // refuse = Some(-1): a real refusal by the kernel, provoked with RLIMIT_AS; otherwise the hook refuses with that errno.
                    let mut _as_limit: Option<AsLimit> = None;
                    match refuse {
                        Some(-1) => { _as_limit = Some(AsLimit::set(64 << 20)); },
                        Some(errno) => if *sticky { verif_io::fail_mmap_from(Some((0, *errno))) } else { verif_io::fail_mmap_after(Some((0, *errno))) },
                        None => {},
                    }
                    verif_io::start_map_log();
                    let r = catch(|| MemoryMap::new(&map_paths[*file], mode));
                    let log = verif_io::take_map_log();
                    verif_io::fail_mmap_from(None);
                    drop(_as_limit);
                    let r = r.map_err(|p| v("map-panic", "MemoryMap::new", format!("{}: {}", step, p)))?;
                    let size = cur_size[*file];
                    let refused = log.iter().any(|c| matches!(c, MapCall::Refused { .. }));
                    let kernel_failed = log.iter().any(|c| matches!(c, MapCall::Map { addr, .. } if *addr == usize::MAX));
                    // A retry that succeeds after a refusal is legitimate: only "no mmap call succeeded" obliges the call to fail.
                    let some_mapping = log.iter().any(|c| matches!(c, MapCall::Map { addr, .. } if *addr != usize::MAX));
                    if refused { stats.fault("M1-mmap-refused", 1); }
                    if refused && *sticky { stats.fault("M1-mmap-refused (every attempt)", 1); }
                    if kernel_failed && *refuse == Some(-1) { stats.fault("M1-mmap-refused (real kernel, RLIMIT_AS)", 1); }
                    if kernel_failed && self.files[*file] == FileSpec::Dir { stats.fault("M1-mmap-refused (real kernel, directory)", 1); }
                    let busy_text = self.files[*file] == FileSpec::BusyExe && size.is_some();
                    let must_fail = match (&self.files[*file], size) {
                        (FileSpec::Missing, _) => Some("the file does not exist"),
                        (FileSpec::BusyExe, None) => Some("the file does not exist"),
                        (_, Some(n)) if n % 8 != 0 => Some("the file size is not a multiple of 8"),
                        _ if !some_mapping && refused => Some("every mmap() call was refused"),
                        _ if !some_mapping && kernel_failed => Some("mmap() returned MAP_FAILED"),
                        (FileSpec::Dir, _) if !some_mapping => Some("it is a directory and nothing was mapped"),
                        _ => None,
                    };
                    stats.probe_if(refused && some_mapping, "a refused mmap() followed by a successful retry");
                    match size { None => stats.fault("M3-missing-file", (self.files[*file] == FileSpec::Missing) as u64), Some(0) => stats.fault("M2-empty-file", 1), Some(n) if n % 8 != 0 => stats.fault("M4-odd-size", 1), _ => {} }
                    match (r, must_fail) {
                        (Ok(m), Some(why)) => {
                            // Do not touch or drop a map built on a failed mmap.
                            std::mem::forget(m);
                            return Err(v("failure-accepted", "MemoryMap::new", format!("{}: MemoryMap::new returned Ok although {} (file {:?})", step, why, self.files[*file])));
                        },
                        (Err(_), Some(_)) => { slots.push(None); stats.probe("map creation failed loudly"); },
                        // A running program's file cannot be opened for writing: refusing the mutable map is the loud answer.
                        (Err(_), None) if busy_text && *mutable => { slots.push(None); stats.probe("mutable map of a busy executable refused"); },
                        // Advisory locks bind nobody, but honouring one is not a wrong answer; leaving the file mapped is (checked below).
                        (Err(_), None) if self.locked && !lock_holders.is_empty() => { slots.push(None); stats.probe("map of a file locked by somebody else refused"); },
                        (Err(_), None) if matches!(self.files[*file], FileSpec::ReadOnly(_)) && *mutable => { slots.push(None); stats.probe("mutable map of a write-protected file refused"); },
                        (Err(e), None) => return Err(v("map-error", "MemoryMap::new", format!("{}: mapping a healthy file ({:?}) failed: {}", step, self.files[*file], e))),
                        (Ok(m), None) => {
                            // Accessors the statement does not mention are counted, not judged (a path may legitimately be normalised).
                            stats.probe_if(m.mode() != mode, "mode() differs from the requested mode (not judged)");
                            stats.probe_if(m.filename() != map_paths[*file].as_path(), "filename() differs from the given path (not judged)");
                            let l = Live { map: m, file: *file, mutable: *mutable, bytes: size.unwrap_or(0) };
                            check_content(&l, &model, &step)?;
                            slots.push(Some(l));
                            stats.probe_if(slots.iter().filter(|s| s.is_some()).count() >= 2, "several maps alive at once");
                            stats.probe_if(size == Some(0), "empty file mapped successfully");
                            stats.probe_if(size.unwrap_or(0) > (4u64 << 30), "file larger than 4 GiB mapped");
                        },
                    }
                },
                LOp::Read { slot } => {
                    if let Some(Some(l)) = slots.get(*slot) { check_content(l, &model, &step)?; }
                },
                LOp::Write { slot, n, salt } => {
                    if let Some(Some(l)) = slots.get_mut(*slot) {
                        if l.mutable && l.map.len() > 0 {
                            let len = l.map.len();
                            let vals = crate::content::Content::new(*n, crate::content::Pat::Random, *salt).words();
                            let file = l.file;
                            let slice = unsafe { l.map.as_mut_slice() };
                            if slice.len() != len { return Err(v("map-len", "MemoryMap::as_mut_slice", format!("{}: mutable slice has {} elements, len() = {}", step, slice.len(), len))); }
                            for (j, val) in vals.iter().enumerate() {
                                let idx = ((*salt as usize).wrapping_mul(31).wrapping_add(j * 977)) % len;
                                slice[idx] = *val;
                                let m = model[file].as_mut().unwrap();
                                if sparse_len[file].is_some() && m.len() < 8 * idx + 8 { if idx < 4096 { m.resize(8 * idx + 8, 0); } else { slice[idx] = 0; continue; } }
                                m[8 * idx..8 * idx + 8].copy_from_slice(&val.to_le_bytes());
                            }
                            stats.probe("write through a mutable map");
                            // Other live maps of the same file see the change (shared mapping).
                            for other in slots.iter().filter_map(|s| s.as_ref()).filter(|o| o.file == file) { check_content(other, &model, &step)?; }
                        }
                    }
                },
                LOp::Grow { file, words } => {
                    // Only plain files grow; the others keep their size.
                    if let (FileSpec::Size(_), Some(n)) = (&self.files[*file], cur_size[*file]) {
                        if n % 8 == 0 {
                            use std::io::Write;
                            let extra = crate::content::Content::new(8 * words, crate::content::Pat::Random, 1000 + k as u64).bytes();
                            let mut f = std::fs::OpenOptions::new().append(true).open(&paths[*file]).map_err(|e| v("harness", "append", e.to_string()))?;
                            f.write_all(&extra).map_err(|e| v("harness", "append", e.to_string()))?;
                            model[*file].as_mut().unwrap().extend_from_slice(&extra);
                            cur_size[*file] = Some(n + extra.len() as u64);
                            stats.probe_if(slots.iter().any(|s| matches!(s, Some(l) if l.file == *file)), "file grown while a map of it is alive");
                            for other in slots.iter().filter_map(|s| s.as_ref()).filter(|o| o.file == *file) { check_content(other, &model, &step)?; }
                        }
                    }
                },
                LOp::Drop { slot } => {
                    if let Some(s) = slots.get_mut(*slot) {
                        if let Some(l) = s.take() {
                            let file = l.file;
                            let was_mutable = l.mutable;
                            verif_io::start_map_log();
                            drop_map(l, self.unwind_drops).map_err(|p| v("drop-panic", "MemoryMap::drop", format!("{}: {}", step, p)))?;
                            stats.probe_if(self.unwind_drops, "map dropped while the stack unwinds");
                            let log = verif_io::take_map_log();
                            if log.iter().any(|c| matches!(c, MapCall::Unmap { ret, .. } if *ret != 0)) { stats.probe("munmap returned an error"); }
                            if was_mutable && sparse_len[file].is_none() {
                                let on_disk = std::fs::read(&map_paths[file]).map_err(|e| v("harness", "read", e.to_string()))?;
                                if &on_disk != model[file].as_ref().unwrap() { return Err(v("mutations-lost", "MemoryMap (Mutable)", format!("{}: after dropping the mutable map the file does not hold what was written through it", step))); }
                                stats.probe("file checked after dropping a mutable map");
                            }
                            stats.probe("map dropped");
                        }
                    }
                },
            }
            check_regions(&slots, &step)?;
        }
        // Drop everything that is still alive, in order, checking the address space after each drop.
        for i in 0..slots.len() {
            if let Some(l) = slots[i].take() {
                let file = l.file;
                let was_mutable = l.mutable;
                drop_map(l, self.unwind_drops).map_err(|p| v("drop-panic", "MemoryMap::drop", p))?;
                check_regions(&slots, &format!("final drop of slot {}", i))?;
                // Survivors stay readable.
                for other in slots.iter().filter_map(|s| s.as_ref()) { check_content(other, &model, "final drops")?; }
                if was_mutable && sparse_len[file].is_none() {
                    let on_disk = std::fs::read(&map_paths[file]).map_err(|e| v("harness", "read", e.to_string()))?;
                    if &on_disk != model[file].as_ref().unwrap() { return Err(v("mutations-lost", "MemoryMap (Mutable)", "after the final drop the file does not hold what was written".to_string())); }
                }
            }
        }
        for (fi, p) in paths.iter().enumerate() {
            let left = regions_of(p);
            if !left.is_empty() { return Err(v("still-mapped-after-drop", "MemoryMap::drop", format!("all maps dropped, yet file {} ({:?}) is still mapped in {} region(s)", fi, self.files[fi], left.len()))); }
        }
        stats.sigs.insert(sig);
        drop(busy);
        drop(held);
        drop(lock_holders);
        let _ = BTreeMap::<u8, u8>::new();
        Ok(())
    }

    pub fn simpler(&self) -> Vec<MapLife> {
        let mut out = Vec::new();
        if self.cwd_removed { let mut s = self.clone(); s.cwd_removed = false; out.push(s); }
        if self.unwind_drops { let mut s = self.clone(); s.unwind_drops = false; out.push(s); }
        if self.odd_names { let mut s = self.clone(); s.odd_names = false; out.push(s); }
        if self.locked { let mut s = self.clone(); s.locked = false; out.push(s); }
        if self.dotdot_link { let mut s = self.clone(); s.dotdot_link = false; out.push(s); }
        for i in 0..self.ops.len() {
            // Removing a Map op shifts slot numbers; renumber the references.
            let mut s = self.clone();
            let removed = s.ops.remove(i);
            if let LOp::Map { .. } = removed {
                let slot_no = self.ops[..i].iter().filter(|o| matches!(o, LOp::Map { .. })).count();
                let mut keep = Vec::new();
                for op in s.ops.into_iter() {
                    let fix = |x: usize| if x > slot_no { Some(x - 1) } else if x == slot_no { None } else { Some(x) };
                    match op {
                        LOp::Read { slot } => if let Some(x) = fix(slot) { keep.push(LOp::Read { slot: x }); },
                        LOp::Write { slot, n, salt } => if let Some(x) = fix(slot) { keep.push(LOp::Write { slot: x, n, salt }); },
                        LOp::Drop { slot } => if let Some(x) = fix(slot) { keep.push(LOp::Drop { slot: x }); },
                        m => keep.push(m),
                    }
                }
                s.ops = keep;
            }
            out.push(s);
        }
        for (i, f) in self.files.iter().enumerate() {
            let smaller: Vec<FileSpec> = match f {
                FileSpec::Sparse(n) => vec![FileSpec::Size(4104), FileSpec::Size((*n).min(1 << 20))],
                FileSpec::Unlinked(n) => vec![FileSpec::Size(*n), FileSpec::Unlinked(8)],
                FileSpec::BusyExe => vec![FileSpec::Size(4104)],
                FileSpec::ReadOnly(n) => vec![FileSpec::Size(*n), FileSpec::ReadOnly(8)],
                FileSpec::Size(n) if *n > 4104 => vec![FileSpec::Size(4104), FileSpec::Size(8192), FileSpec::Size(n / 2 / 8 * 8)],
                FileSpec::Size(n) if *n > 8 => vec![FileSpec::Size(8), FileSpec::Size(n / 2 / 8 * 8)],
                _ => vec![],
            };
            for sm in smaller { let mut s = self.clone(); s.files[i] = sm; out.push(s); }
        }
        for (i, op) in self.ops.iter().enumerate() {
            if let LOp::Map { file, mutable, refuse, sticky } = op {
                if refuse.is_some() { let mut s = self.clone(); s.ops[i] = LOp::Map { file: *file, mutable: *mutable, refuse: None, sticky: false }; out.push(s); }
                if refuse.is_some() && *sticky { let mut s = self.clone(); s.ops[i] = LOp::Map { file: *file, mutable: *mutable, refuse: *refuse, sticky: false }; out.push(s); }
                if *mutable { let mut s = self.clone(); s.ops[i] = LOp::Map { file: *file, mutable: false, refuse: *refuse, sticky: *sticky }; out.push(s); }
                if *file != 0 { let mut s = self.clone(); s.ops[i] = LOp::Map { file: 0, mutable: *mutable, refuse: *refuse, sticky: *sticky }; out.push(s); }
            }
        }
        out
    }
}

/// Caps the address space of this process at its current size plus `slack` bytes; restores the
/// limit when dropped. Small allocations keep working, a large mapping is refused with ENOMEM.
struct AsLimit {
    old: libc::rlimit,
}

impl AsLimit {
    fn set(slack: u64) -> AsLimit {
        let pages: u64 = std::fs::read_to_string("/proc/self/statm").ok().and_then(|t| t.split_whitespace().next().and_then(|x| x.parse().ok())).unwrap_or(1 << 20);
        unsafe {
            let mut old = libc::rlimit { rlim_cur: 0, rlim_max: 0 };
            libc::getrlimit(libc::RLIMIT_AS, &mut old);
            let want = (pages * 4096 + slack) as libc::rlim_t;
            let new = libc::rlimit { rlim_cur: want.min(old.rlim_max), rlim_max: old.rlim_max };
            libc::setrlimit(libc::RLIMIT_AS, &new);
            AsLimit { old }
        }
    }
}

impl Drop for AsLimit {
    fn drop(&mut self) {
        unsafe { libc::setrlimit(libc::RLIMIT_AS, &self.old); }
    }
}

fn file_class(f: &FileSpec) -> u64 {
    match f {
        FileSpec::Missing => 0,
        FileSpec::Dir => 7,
        FileSpec::BusyExe => 9,
        FileSpec::ReadOnly(_) => 10,
        FileSpec::Unlinked(_) => 8,
        FileSpec::Sparse(_) => 1,
        FileSpec::Size(0) => 2,
        FileSpec::Size(n) if n % 8 != 0 => 3,
        FileSpec::Size(n) if *n < 4096 => 4,
        FileSpec::Size(n) if n % 4096 == 0 => 5,
        FileSpec::Size(_) => 6,
    }
}
