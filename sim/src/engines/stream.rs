//! Engine `streamsim`: the library's serialization code against simulated `Read` / `Write` streams.
//!
//! Scenarios: RoundTrip (C06), StreamFault (C14 a-d), Supports / Foreign / Skip (C19).

use serde::{Deserialize, Serialize};
use std::io::{self, Write as IoWrite};
use std::os::unix::fs::OpenOptionsExt;
use std::path::PathBuf;

use simple_sds::bit_vector::BitVector;
use simple_sds::ops::{BitVec, PredSucc, Rank, Select, SelectZero};
use simple_sds::raw_vector::{AccessRaw, RawVector};
use simple_sds::serialize::{self, Serialize as SdsSerialize};

use crate::content::Content;
use crate::core::{catch, Outcome, Stats, Violation};
use crate::payload::{build_bv, gen_large_payload, gen_long_superblock_payload, gen_payload, DynVal, Family, GenCfg, Leaf, Payload, Probe};
use crate::rng::Rng;
use crate::simfs::{FsPlan, FsSession};
use crate::simio::{is_injected, Chunk, Kind, ReadFault, ReadPlan, SimReader, SimWriter, WriteFault, WritePlan, READ_KINDS, WRITE_KINDS};

fn nontrivial(s: &crate::simio::IoStats) -> bool {
    s.short > 0 || s.eintr > 0 || s.eof > 0 || s.err > 0 || s.zero > 0
}

fn build_all(prop: &str, payloads: &[Payload]) -> Result<Vec<Box<dyn DynVal>>, Violation> {
    let mut vals = Vec::with_capacity(payloads.len());
    for p in payloads {
        match catch(|| p.build()) {
            Ok(v) => vals.push(v),
            Err(msg) => return Err(Violation::new(prop, "harness", "build", format!("constructing {} panicked: {}", p.describe(), msg))),
        }
    }
    Ok(vals)
}

//-----------------------------------------------------------------------------
// C06: round trip under legal stream behaviours

#[derive(Clone, Debug, Serialize, Deserialize)]
pub struct RoundTrip {
    pub payloads: Vec<Payload>,
    pub w: WritePlan,
    pub r: ReadPlan,
    /// Serialize with `serialize_header` + `serialize_body` instead of `serialize`.
    pub split: bool,
    /// Additionally push the first payload through `serialize_to` / `load_from` on the simulated file system.
    pub via_fs: Option<FsPlan>,
    /// Additionally load the first payload with `load_from` from a named pipe on the real file system
    /// (a path whose metadata reports length 0 while the data arrives as a stream).
    #[serde(default)]
    pub via_fifo: bool,
}

impl RoundTrip {
    pub fn generate(rng: &mut Rng, max_len: usize) -> RoundTrip {
        let cfg = GenCfg::swarm(rng, Family::All, max_len);
        let n = match rng.below(8) { 0 | 1 => 1, 2 | 3 => 2, 4 => 3, 5 => 4, 6 => 5, _ => 6 };
        let mut payloads: Vec<Payload> = (0..n).map(|_| gen_payload(rng, &cfg)).collect();
        if rng.chance(1, 120) { let at = rng.below_usize(payloads.len() + 1); payloads.insert(at, gen_long_superblock_payload(rng)); }
        let w = if rng.chance(1, 6) { WritePlan::plain() } else { WritePlan::generate(rng, 64) };
        let r = if rng.chance(1, 6) { ReadPlan::plain() } else { ReadPlan::generate(rng, 64) };
        let via_fs = if rng.chance(1, 5) { Some(FsPlan::generate(rng, 32)) } else { None };
        RoundTrip { payloads, w, r, split: rng.chance(1, 4), via_fs, via_fifo: rng.chance(1, 200) }
    }

    /// One large structure (around 2^16 / 2^17 / 2^19 items) with coarse chunking, optionally followed by a small one.
    pub fn generate_large(rng: &mut Rng, big: bool) -> RoundTrip {
        let base = if big { *rng.pick(&[1usize << 16, 1 << 16, 1 << 17, 1 << 19, 1 << 20, 1 << 21]) } else { *rng.pick(&[1usize << 16, 1 << 16, 1 << 16, 1 << 17, 1 << 20]) };
        let words = match rng.below(6) { 0 => base - 1, 1 => base, 2 | 3 => base + 1, 4 => base + rng.range_usize(2, 5000), _ => 2 * base + 1 };
        let mut payloads = vec![gen_large_payload(rng, words)];
        // Now and then a string just above 32 MiB or 64 MiB (multi-byte characters across every multiple of 2^25 bytes).
        if rng.chance(1, 25) {
            let len = *rng.pick(&[1usize << 25, 1 << 25, 1 << 26]) + rng.range_usize(3, 5000);
            payloads[0] = Payload { leaf: Leaf::Str(Content { len, pat: crate::content::Pat::Random, salt: rng.next() & 0xFFFF }), opt: rng.below(2) as u8, none_at: None };
        }
        if rng.bool() { payloads.push(Payload::plain(Leaf::U64(0x5E17_1E1A_0000_0001))); }
        let coarse = |rng: &mut Rng| match rng.below(5) { 0 => Chunk::Unbounded, 1 => Chunk::Max(1 << 16), 2 => Chunk::Max(4096), 3 => Chunk::Align(1 << 16), _ => Chunk::Seq(vec![100_000, 4096, 1 << 20, 65_537, 13]) };
        RoundTrip { payloads, w: WritePlan { chunk: coarse(rng), eintr: vec![], fault: None, vectored: rng.bool() }, r: ReadPlan { chunk: coarse(rng), eintr: if rng.bool() { vec![3, 17] } else { vec![] }, fault: None }, split: false, via_fs: None, via_fifo: false }
    }

    pub fn run(&self, prop: &str) -> Outcome {
        let mut out = Outcome::default();
        let vals = match build_all(prop, &self.payloads) { Ok(v) => v, Err(v) => return out.fail(v) };
        out.stats.evaluations = 1;
        out.stats.probe_if(vals.iter().any(|v| v.size_in_elements() > (1 << 16)), "structure larger than 65536 elements");
        out.stats.probe_if(self.payloads.iter().any(|p| matches!(&p.leaf, Leaf::Str(c) if c.len > 1 << 25)), "string above 32 MiB with characters across the 2^25-byte marks");
        out.stats.probe_if(self.payloads.iter().any(|p| matches!(&p.leaf, Leaf::VecTriple(c) if c.len > 2731)), "vector of more than 2731 three-word items");
        let v = |clause: &str, site: &str, msg: String| Violation::new(prop, clause, site, msg);

        // Reference bytes: an unbounded in-memory writer.
        let mut expected: Vec<Vec<u8>> = Vec::new();
        for (i, val) in vals.iter().enumerate() {
            let tn = val.type_name();
            let bytes = match catch(|| val.serialize_vec()) {
                Ok(Ok(b)) => b,
                Ok(Err(e)) => return out.fail(v("ser-error", tn, format!("payload {} ({}): serialize into Vec<u8> failed: {}", i, self.payloads[i].describe(), e))),
                Err(p) => return out.fail(v("panic", tn, format!("payload {}: serialize panicked: {}", i, p))),
            };
            let se = val.size_in_elements();
            let sb = val.size_in_bytes();
            if sb != 8 * se {
                return out.fail(v("size-bytes-vs-elements", tn, format!("size_in_bytes {} != 8 * size_in_elements {}", sb, se)));
            }
            if bytes.len() != sb {
                return out.fail(v("size-mismatch", tn, format!("payload {} ({}): wrote {} bytes, size_in_bytes() says {}", i, self.payloads[i].describe(), bytes.len(), sb)));
            }
            if let Some(predicted) = self.payloads[i].size_by_params() {
                if predicted != se {
                    return out.fail(v("size-by-params", tn, format!("size_by_params {} != size_in_elements {}", predicted, se)));
                }
            }
            out.stats.probe_if(bytes.len() == 8, "single-element structure");
            expected.push(bytes);
        }
        let total: usize = expected.iter().map(|b| b.len()).sum();

        // Back-to-back serialization through the simulated writer.
        let mut w = SimWriter::new(self.w.clone(), total);
        let mut ledger: Vec<usize> = Vec::with_capacity(vals.len() + 1);
        ledger.push(0);
        for (i, val) in vals.iter().enumerate() {
            let tn = val.type_name();
            let r = catch(|| if self.split { val.serialize_split(&mut w) } else { val.serialize(&mut w) });
            match r {
                Ok(Ok(())) => {},
                Ok(Err(e)) => {
                    out.stats.io("W", &w.stats);
                    let clause = if w.stats.exceeded_cap { "no-progress" } else { "ser-error" };
                    return out.fail(v(clause, tn, format!("payload {} ({}): serialize failed under a legal writer (short writes / EINTR only): {}", i, self.payloads[i].describe(), e)));
                },
                Err(p) => return out.fail(v("panic", tn, format!("payload {}: serialize panicked: {}", i, p))),
            }
            let pos = w.position();
            if pos != ledger[i] + expected[i].len() {
                out.stats.io("W", &w.stats);
                return out.fail(v("write-position", tn, format!("payload {} ({}): writer at byte {}, expected {}", i, self.payloads[i].describe(), pos, ledger[i] + expected[i].len())));
            }
            ledger.push(pos);
        }
        out.stats.io("W", &w.stats);
        if nontrivial(&w.stats) { out.stats.sigs.insert(w.stats.sig); }
        let stream = w.data;
        {
            let mut off = 0usize;
            for (i, e) in expected.iter().enumerate() {
                if stream[off..off + e.len()] != e[..] {
                    let at = (0..e.len()).find(|j| stream[off + j] != e[*j]).unwrap();
                    return out.fail(v("chunking-changes-bytes", vals[i].type_name(), format!("payload {} ({}): byte {} differs between chunked and unbounded writer", i, self.payloads[i].describe(), at)));
                }
                off += e.len();
            }
        }

        // Back-to-back loading through the simulated reader.
        let mut r = SimReader::new(&stream, self.r.clone());
        for (i, val) in vals.iter().enumerate() {
            let tn = val.type_name();
            let loaded = match catch(|| val.load(&mut r)) {
                Ok(Ok(l)) => l,
                Ok(Err(e)) => {
                    out.stats.io("R", &r.stats);
                    let clause = if r.stats.exceeded_cap { "no-progress" } else { "load-error" };
                    return out.fail(v(clause, tn, format!("payload {} ({}): load failed under a legal reader (short reads / EINTR only) at byte {}: {}", i, self.payloads[i].describe(), r.position(), e)));
                },
                Err(p) => return out.fail(v("panic", tn, format!("payload {} ({}): load panicked: {}", i, self.payloads[i].describe(), p))),
            };
            if r.position() != ledger[i + 1] {
                out.stats.io("R", &r.stats);
                return out.fail(v("load-position", tn, format!("payload {} ({}): reader at byte {} after load, next structure starts at {}", i, self.payloads[i].describe(), r.position(), ledger[i + 1])));
            }
            if !val.eq_dyn(loaded.as_ref()) {
                return out.fail(v("load-not-equal", tn, format!("payload {} ({}): loaded value != original: {} vs {}", i, self.payloads[i].describe(), loaded.short(), val.short())));
            }
            match catch(|| (val.probe(), loaded.probe())) {
                Ok((a, b)) => if a != b {
                    let at = (0..a.len().min(b.len())).find(|j| a[*j] != b[*j]).unwrap_or(a.len().min(b.len()));
                    return out.fail(v("battery-differs", tn, format!("payload {} ({}): query battery differs at answer {}", i, self.payloads[i].describe(), at)));
                },
                Err(p) => return out.fail(v("harness", "probe", format!("query battery panicked on {}: {}", self.payloads[i].describe(), p))),
            }
            if !val.partial_load() && loaded.size_in_elements() != val.size_in_elements() {
                return out.fail(v("loaded-size", tn, format!("loaded value reports {} elements, original {}", loaded.size_in_elements(), val.size_in_elements())));
            }
        }
        out.stats.io("R", &r.stats);
        if nontrivial(&r.stats) { out.stats.sigs.insert(r.stats.sig ^ 0x5555); }
        if r.remaining() != 0 {
            return out.fail(v("load-position", "stream", format!("{} bytes left after the last structure", r.remaining())));
        }

        // Probes.
        for p in self.payloads.iter() {
            out.stats.probe_if(p.opt >= 2 && p.none_at.is_none(), "nested Some(Some(..))");
            out.stats.probe_if(p.opt >= 1 && p.none_at.is_some(), "None payload");
            out.stats.probe_if(matches!(&p.leaf, Leaf::Bv { supports, .. } if *supports != 0) && p.opt >= 1, "option of a structure that contains options");
            if let Leaf::Bytes(c) | Leaf::Str(c) = &p.leaf { out.stats.probe_if(c.len % 8 != 0 && p.none_at.is_none(), "byte payload with padding"); }
        }
        out.stats.probe_if(self.payloads.len() > 1, "concatenated stream");
        for (p, val) in self.payloads.iter().zip(vals.iter()) {
            if let Leaf::Sel(_) | Leaf::SelZ(_) = p.leaf {
                let long = val.as_any().downcast_ref::<crate::payload::Holder<simple_sds::bit_vector::select_support::SelectSupport<simple_sds::bit_vector::Identity>>>().map(|h| h.0.long_superblocks())
                    .or_else(|| val.as_any().downcast_ref::<crate::payload::Holder<simple_sds::bit_vector::select_support::SelectSupport<simple_sds::bit_vector::Complement>>>().map(|h| h.0.long_superblocks()));
                out.stats.probe_if(long.unwrap_or(0) > 0, "select support with long superblocks");
            }
        }
        out.stats.probe_if(r.stats.eintr > 0, "EINTR during load");
        out.stats.probe_if(w.stats.eintr > 0, "EINTR during serialize");

        // Pipe route: every payload goes through one FIFO, each with its own load_from(path) call. The read
        // position belongs to the pipe, not to the handle: a loader that takes more than its structure from the
        // path robs the next call. A run of zero bytes follows the last structure, so that a robbed call finds
        // something (wrong) to read instead of waiting for ever.
        let total: usize = expected.iter().map(|e| e.len()).sum();
        if self.via_fifo && total <= (1 << 20) {
            use std::io::Write as _;
            let path = crate::scratch::file("fifo");
            let cpath = std::ffi::CString::new(path.to_string_lossy().as_bytes()).unwrap();
            if unsafe { libc::mkfifo(cpath.as_ptr(), 0o600) } == 0 {
                // A reader of our own that never reads: keeps the pipe (and what is in it) alive between two opens.
                let keep = std::fs::OpenOptions::new().read(true).custom_flags(libc::O_NONBLOCK).open(&path);
                let mut bytes: Vec<u8> = Vec::with_capacity(total + (128 << 10));
                for e in expected.iter() { bytes.extend_from_slice(e); }
                bytes.resize(total + (128 << 10), 0);
                let wpath = path.clone();
                // The writer blocks in the trailer until the last reader is gone (EPIPE), so its end stays open throughout.
                let writer = std::thread::spawn(move || { if let Ok(mut f) = std::fs::OpenOptions::new().write(true).open(&wpath) { let _ = f.write_all(&bytes); } });
                let mut verdict: Option<Violation> = None;
                for (i, val) in vals.iter().enumerate() {
                    match catch(|| val.load_from(&path)) {
                        Ok(Ok(l)) => if !val.eq_dyn(l.as_ref()) { verdict = Some(v("load-not-equal", "load_from", format!("{}: structure {} of {} loaded from a named pipe differs", val.type_name(), i + 1, vals.len()))); },
                        Ok(Err(e)) => verdict = Some(v("load-error", "load_from", format!("{} ({} bytes, structure {} of {}) arriving through a named pipe: load_from failed: {}", val.type_name(), expected[i].len(), i + 1, vals.len(), e))),
                        Err(p) => verdict = Some(v("panic", "load_from", p)),
                    }
                    if verdict.is_some() { break; }
                }
                drop(keep);
                // Release the writer if no loader ever opened the pipe.
                if let Ok(f) = std::fs::OpenOptions::new().read(true).custom_flags(libc::O_NONBLOCK).open(&path) { drop(f); }
                let _ = writer.join();
                let _ = std::fs::remove_file(&path);
                if let Some(viol) = verdict { return out.fail(viol); }
                out.stats.probe("load_from on a named pipe");
                out.stats.probe_if(vals.len() >= 2, "several structures through one named pipe, one load_from each");
            }
        }

        // File route: serialize_to / load_from on the simulated file system.
        if let Some(plan) = &self.via_fs {
            let fs = FsSession::start(plan.clone(), 2 * expected[0].len());
            let path = crate::scratch::file("simroundtrip");
            // Pre-existing content must be truncated away: three bytes, or more bytes than will be written.
            fs.put(&path, vec![0xEE; if (expected[0].len() / 8) % 2 == 0 { 3 } else { expected[0].len() + 40 }]);
            let val = &vals[0];
            let tn = val.type_name();
            match catch(|| val.serialize_to(&path)) {
                Ok(Ok(())) => {},
                Ok(Err(e)) => return out.fail(v("ser-error", "serialize_to", format!("{}: serialize_to failed on a healthy file system: {}", tn, e))),
                Err(p) => return out.fail(v("panic", "serialize_to", format!("{}: {}", tn, p))),
            }
            if fs.with(|st| st.counters.opens) == 0 {
                // The code reached the real file system without going through the seam: nothing to judge here.
                let _ = std::fs::remove_file(&path);
                out.stats.probe("file seam bypassed: the code under test opened the real file system directly");
                return out;
            }
            let file = fs.file(&path).unwrap_or_default();
            if file != expected[0] {
                return out.fail(v("file-bytes", "serialize_to", format!("{}: file has {} bytes, expected {} (or content differs)", tn, file.len(), expected[0].len())));
            }
            match catch(|| val.load_from(&path)) {
                Ok(Ok(l)) => if !val.eq_dyn(l.as_ref()) { return out.fail(v("load-not-equal", "load_from", format!("{}: value loaded from file differs", tn))); },
                Ok(Err(e)) => return out.fail(v("load-error", "load_from", format!("{}: {}", tn, e))),
                Err(p) => return out.fail(v("panic", "load_from", format!("{}: {}", tn, p))),
            }
            if fs.open_handles() != 0 {
                return out.fail(v("handle-leak", "serialize_to/load_from", format!("{} simulated file handles still open", fs.open_handles())));
            }
            fs.with(|st| { out.stats.steps += st.io.calls; out.stats.fault("W1-short", st.io.short); out.stats.fault("W2-eintr", st.io.eintr); if st.io.short + st.io.eintr > 0 { out.stats.sigs.insert(st.io.sig ^ 0xF5); } });
            out.stats.probe("file route (serialize_to/load_from)");
        }
        out
    }

    pub fn simpler(&self) -> Vec<RoundTrip> {
        let mut out = Vec::new();
        for i in 0..self.payloads.len() {
            if self.payloads.len() > 1 {
                let mut s = self.clone(); s.payloads.remove(i); out.push(s);
            }
        }
        if self.via_fs.is_some() { let mut s = self.clone(); s.via_fs = None; out.push(s); }
        if self.via_fifo { let mut s = self.clone(); s.via_fifo = false; out.push(s); }
        if self.split { let mut s = self.clone(); s.split = false; out.push(s); }
        if !self.w.chunk.is_unbounded() { let mut s = self.clone(); s.w.chunk = Chunk::Unbounded; out.push(s); }
        if !self.r.chunk.is_unbounded() { let mut s = self.clone(); s.r.chunk = Chunk::Unbounded; out.push(s); }
        if !self.w.eintr.is_empty() { let mut s = self.clone(); s.w.eintr.clear(); out.push(s); }
        if !self.r.eintr.is_empty() { let mut s = self.clone(); s.r.eintr.clear(); out.push(s); }
        for i in 0..self.payloads.len() {
            for p in self.payloads[i].simpler() { let mut s = self.clone(); s.payloads[i] = p; out.push(s); }
        }
        if let Chunk::Seq(v) = &self.r.chunk { if v.len() > 1 { let mut s = self.clone(); s.r.chunk = Chunk::Max(*v.iter().min().unwrap()); out.push(s); } }
        if let Chunk::Seq(v) = &self.w.chunk { if v.len() > 1 { let mut s = self.clone(); s.w.chunk = Chunk::Max(*v.iter().min().unwrap()); out.push(s); } }
        out
    }
}

//-----------------------------------------------------------------------------
// C14 a-d: every fault point of one structure

#[derive(Clone, Copy, Debug, Serialize, Deserialize, PartialEq, Eq)]
pub enum FaultClause {
    /// a: stream ends after k bytes, `load`.
    LoadTrunc,
    /// b: stream ends after k bytes, `skip_option`.
    SkipTrunc,
    /// c: read error after k bytes, `load`.
    LoadErr,
    /// c': read error after k bytes, `skip_option`.
    SkipErr,
    /// d: write error after k bytes, `serialize`.
    SerErr,
    /// d': `write` returns Ok(0) after k bytes, `serialize`.
    SerZero,
}

#[derive(Clone, Debug, Serialize, Deserialize, PartialEq, Eq)]
pub enum Points {
    /// Every k in 0..size.
    All,
    One(usize),
    /// For structures too large to enumerate: every k within 24 bytes of a multiple of 4 KiB, 64 KiB or
    /// 1 MiB or of either end, plus an even spread of 96 further points.
    Sample,
}

#[derive(Clone, Debug, Serialize, Deserialize)]
pub struct StreamFault {
    pub payload: Payload,
    pub clause: FaultClause,
    pub chunk: Chunk,
    pub eintr: Vec<u64>,
    pub kind: Kind,
    pub points: Points,
    /// The failing sink implements `write_vectored` natively.
    #[serde(default)]
    pub vectored: bool,
}

impl StreamFault {
    pub fn generate(rng: &mut Rng, max_len: usize) -> StreamFault {
        let clause = *rng.pick(&[FaultClause::LoadTrunc, FaultClause::LoadTrunc, FaultClause::SkipTrunc, FaultClause::LoadErr, FaultClause::SkipErr, FaultClause::SerErr, FaultClause::SerErr, FaultClause::SerZero]);
        let cfg = GenCfg::swarm(rng, Family::All, max_len);
        let mut payload = gen_payload(rng, &cfg);
        if matches!(clause, FaultClause::SkipTrunc | FaultClause::SkipErr) && payload.opt == 0 {
            payload.opt = 1 + rng.below(2) as u8;
            payload.none_at = if rng.chance(1, 6) { Some(rng.below(payload.opt as u64) as u8) } else { None };
        }
        let chunk = match rng.below(3) { 0 => Chunk::Unbounded, 1 => Chunk::Max(*rng.pick(&[1usize, 3, 7, 8, 16])), _ => Chunk::generate(rng) };
        let eintr = if rng.chance(1, 3) { crate::simio::gen_eintr(rng, 32) } else { Vec::new() };
        let kind = match clause {
            FaultClause::LoadErr | FaultClause::SkipErr => *rng.pick(&READ_KINDS),
            _ => *rng.pick(&WRITE_KINDS),
        };
        StreamFault { payload, clause, chunk, eintr, kind, points: Points::All, vectored: rng.chance(1, 2) }
    }

    fn one(&self, prop: &str, val: &dyn DynVal, bytes: &[u8], k: usize, stats: &mut Stats) -> Option<Violation> {
        let tn = val.type_name();
        let desc = || self.payload.describe();
        stats.evaluations += 1;
        match self.clause {
            FaultClause::LoadTrunc | FaultClause::LoadErr => {
                let fault = if self.clause == FaultClause::LoadTrunc { ReadFault::Eof(k) } else { ReadFault::Err(k, self.kind) };
                let mut r = SimReader::new(bytes, ReadPlan { chunk: self.chunk.clone(), eintr: self.eintr.clone(), fault: Some(fault) });
                let res = catch(|| val.load(&mut r).map(|_| ()));
                stats.io("R", &r.stats);
                stats.sigs.insert(r.stats.sig);
                stats.probe_if(k % 8 == 0 && k > 0, "fault exactly on an element boundary");
                stats.probe_if(k % 8 != 0, "fault inside an element");
                let (clause, what) = if self.clause == FaultClause::LoadTrunc { ("load-trunc", "stream truncated") } else { ("load-err", "read error") };
                match res {
                    Err(p) => Some(Violation::new(prop, &format!("{}-panic", clause), tn, format!("{} after {} of {} bytes: load of {} panicked: {}", what, k, bytes.len(), desc(), p))),
                    Ok(Ok(())) => Some(Violation::new(prop, clause, tn, format!("{} after {} of {} bytes: load of {} returned Ok", what, k, bytes.len(), desc()))),
                    Ok(Err(_)) if r.stats.exceeded_cap => Some(Violation::new(prop, "no-progress", tn, format!("{} after {} bytes: load of {} kept calling read ({} calls)", what, k, desc(), r.stats.calls))),
                    Ok(Err(_)) => None,
                }
            },
            FaultClause::SkipTrunc | FaultClause::SkipErr => {
                let fault = if self.clause == FaultClause::SkipTrunc { ReadFault::Eof(k) } else { ReadFault::Err(k, self.kind) };
                let mut r = SimReader::new(bytes, ReadPlan { chunk: self.chunk.clone(), eintr: self.eintr.clone(), fault: Some(fault) });
                let res = catch(|| serialize::skip_option(&mut r));
                stats.io("R", &r.stats);
                stats.sigs.insert(r.stats.sig ^ 0x77);
                stats.probe_if(k >= 8, "skip: fault after the length element");
                let (clause, what) = if self.clause == FaultClause::SkipTrunc { ("skip-trunc", "stream truncated") } else { ("skip-err", "read error") };
                match res {
                    Err(p) => Some(Violation::new(prop, &format!("{}-panic", clause), "skip_option", format!("{} after {} of {} bytes: skip_option over {} panicked: {}", what, k, bytes.len(), desc(), p))),
                    Ok(Ok(())) => Some(Violation::new(prop, clause, "skip_option", format!("{} after {} of {} bytes: skip_option over {} returned Ok", what, k, bytes.len(), desc()))),
                    Ok(Err(_)) if r.stats.exceeded_cap => Some(Violation::new(prop, "no-progress", "skip_option", format!("{} after {} bytes: skip_option kept calling read", what, k))),
                    Ok(Err(_)) => None,
                }
            },
            FaultClause::SerErr | FaultClause::SerZero => {
                let fault = if self.clause == FaultClause::SerErr { WriteFault::Err(k, self.kind) } else { WriteFault::Zero(k) };
                let mut w = SimWriter::new(WritePlan { chunk: self.chunk.clone(), eintr: self.eintr.clone(), fault: Some(fault), vectored: self.vectored }, bytes.len());
                let res = catch(|| val.serialize(&mut w));
                stats.io("W", &w.stats);
                stats.sigs.insert(w.stats.sig ^ 0x99);
                stats.probe_if(k == 0, "sink fails on the first byte");
                stats.probe_if(k + 8 > bytes.len(), "sink fails in the last element");
                let (clause, what) = if self.clause == FaultClause::SerErr { ("ser-err", "write error") } else { ("ser-zero", "write returned Ok(0)") };
                match res {
                    Err(p) => Some(Violation::new(prop, &format!("{}-panic", clause), tn, format!("{} after {} of {} bytes: serialize of {} panicked: {}", what, k, bytes.len(), desc(), p))),
                    Ok(Ok(())) => Some(Violation::new(prop, clause, tn, format!("{} after {} of {} bytes: serialize of {} returned Ok ({} bytes reached the sink)", what, k, bytes.len(), desc(), w.position()))),
                    Ok(Err(_)) if w.stats.exceeded_cap => Some(Violation::new(prop, "no-progress", tn, format!("{} after {} bytes: serialize of {} kept calling write ({} calls)", what, k, desc(), w.stats.calls))),
                    Ok(Err(e)) => {
                        // "returns that error": the kind must survive; wrapping the error with context is fine.
                        stats.probe_if(self.clause == FaultClause::SerErr && !is_injected(&e), "injected error came back wrapped");
                        if self.clause == FaultClause::SerErr && e.kind() != self.kind.to_io() {
                            Some(Violation::new(prop, "ser-err-kind", tn, format!("sink failed with {:?} after {} bytes; serialize of {} returned a different error: {:?} {}", self.kind, k, desc(), e.kind(), e)))
                        } else { None }
                    },
                }
            },
        }
    }

    pub fn run(&self, prop: &str) -> Outcome {
        let mut out = Outcome::default();
        let val = match catch(|| self.payload.build()) {
            Ok(v) => v,
            Err(msg) => return out.fail(Violation::new(prop, "harness", "build", format!("constructing {} panicked: {}", self.payload.describe(), msg))),
        };
        let bytes = match catch(|| val.serialize_vec()) {
            Ok(Ok(b)) => b,
            Ok(Err(e)) => return out.fail(Violation::new(prop, "harness", "serialize", format!("{}", e))),
            Err(p) => return out.fail(Violation::new(prop, "harness", "serialize", p)),
        };
        let n = bytes.len();
        // Enumeration is quadratic in the size: beyond 8 KiB fall back to the boundary-directed sample.
        let ks: Vec<usize> = match self.points { Points::All if n > 8192 => sample_points_of(n), Points::All => (0..n).collect(), Points::One(k) => if k < n { vec![k] } else { vec![] }, Points::Sample => sample_points_of(n) };
        for k in ks {
            if let Some(v) = self.one(prop, val.as_ref(), &bytes, k, &mut out.stats) {
                let mut v = v;
                v.message = format!("[fault point k={}] {}", k, v.message);
                return out.fail(v);
            }
        }
        out
    }

    /// The fault point of the first failure, for narrowing an `All` scenario before shrinking.
    pub fn first_failing_point(&self, prop: &str) -> Option<usize> {
        let val = catch(|| self.payload.build()).ok()?;
        let bytes = catch(|| val.serialize_vec()).ok()?.ok()?;
        let mut stats = Stats::default();
        let ks: Vec<usize> = if self.points == Points::Sample || bytes.len() > 8192 { sample_points_of(bytes.len()) } else { (0..bytes.len()).collect() };
        ks.into_iter().find(|k| self.one(prop, val.as_ref(), &bytes, *k, &mut stats).is_some())
    }

    /// One large structure (around 2^16 / 2^17 elements) with sampled fault points and coarse chunking.
    pub fn generate_large(rng: &mut Rng, huge: bool) -> StreamFault {
        let base = if huge { (1usize << 21) + (1 << 16) } else { *rng.pick(&[1usize << 16, 1 << 16, 1 << 17]) };
        let words = match rng.below(4) { 0 => base - 1, 1 => base, 2 => base + 1, _ => base + rng.range_usize(2, 3000) };
        let payload = if huge {
            // Tens of megabytes: the size class where "do not trust the length header" / "write in blocks" code paths begin.
            match rng.below(5) {
                // Above 64 MiB: the next threshold after 16 and 32 MiB at which loaders change strategy.
                4 => { let c = Content { len: (1usize << 26) + rng.range_usize(8, 5000), pat: crate::content::Pat::Counter, salt: rng.next() & 0xFFFF }; Payload { leaf: if rng.bool() { Leaf::Bytes(c) } else { Leaf::Str(c) }, opt: rng.below(2) as u8, none_at: None } },
                0 => { let c = Content { len: 8 * words + rng.range_usize(0, 7), pat: crate::content::Pat::Counter, salt: rng.next() & 0xFFFF }; Payload { leaf: Leaf::Bytes(c), opt: rng.below(2) as u8, none_at: None } },
                1 => { let c = Content { len: 8 * words + rng.range_usize(0, 7), pat: crate::content::Pat::Counter, salt: rng.next() & 0xFFFF }; Payload { leaf: Leaf::Str(c), opt: rng.below(2) as u8, none_at: None } },
                2 => { let c = Content { len: (1usize << 22) + rng.range_usize(1, 5000), pat: crate::content::Pat::Counter, salt: rng.next() & 0xFFFF }; Payload { leaf: Leaf::VecU64(c), opt: rng.below(2) as u8, none_at: None } },
                _ => { let c = Content { len: (1usize << 21) + rng.range_usize(1, 3000), pat: crate::content::Pat::Counter, salt: rng.next() & 0xFFFF }; Payload { leaf: Leaf::VecPair(c), opt: rng.below(2) as u8, none_at: None } },
            }
        } else { gen_large_payload(rng, words) };
        let clause = if payload.opt > 0 && rng.bool() { *rng.pick(&[FaultClause::SkipTrunc, FaultClause::SkipErr]) } else { *rng.pick(&[FaultClause::LoadTrunc, FaultClause::LoadTrunc, FaultClause::LoadErr, FaultClause::SerErr, FaultClause::SerZero]) };
        let chunk = match rng.below(4) { 0 => Chunk::Unbounded, 1 => Chunk::Max(1 << 16), 2 => Chunk::Align(1 << 16), _ => Chunk::Seq(vec![100_000, 4096, 1 << 20, 65_537]) };
        let kind = match clause { FaultClause::LoadErr | FaultClause::SkipErr => *rng.pick(&READ_KINDS), _ => *rng.pick(&WRITE_KINDS) };
        StreamFault { payload, clause, chunk, eintr: Vec::new(), kind, points: Points::Sample, vectored: rng.bool() }
    }

    pub fn simpler(&self) -> Vec<StreamFault> {
        let mut out = Vec::new();
        if self.points == Points::Sample { let mut s = self.clone(); s.points = Points::All; let _ = s; }
        if let Points::One(k) = self.points {
            // Keep one fault point; try simpler payloads with the fault at the same / a smaller position.
            for p in self.payload.simpler() {
                let mut s = self.clone(); s.payload = p.clone(); out.push(s);
                for kk in [k / 2, k.saturating_sub(8), k.saturating_sub(1), 8, 0] {
                    if kk < k { let mut s = self.clone(); s.payload = p.clone(); s.points = Points::One(kk); out.push(s); }
                }
            }
            for kk in [0, 8, k / 2, k.saturating_sub(8), k.saturating_sub(1)] {
                if kk < k { let mut s = self.clone(); s.points = Points::One(kk); out.push(s); }
            }
        } else {
            for p in self.payload.simpler() { let mut s = self.clone(); s.payload = p; out.push(s); }
        }
        if !self.chunk.is_unbounded() { let mut s = self.clone(); s.chunk = Chunk::Unbounded; out.push(s); }
        if !self.eintr.is_empty() { let mut s = self.clone(); s.eintr.clear(); out.push(s); }
        out
    }
}

fn sample_points_of(n: usize) -> Vec<usize> {
    fn around(ks: &mut Vec<usize>, c: usize, n: usize) {
        for d in 0..=24usize { if c >= d && c - d < n { ks.push(c - d); } if c + d < n { ks.push(c + d); } }
    }
    let mut ks: Vec<usize> = Vec::new();
    around(&mut ks, 0, n);
    around(&mut ks, n.saturating_sub(1), n);
    // Tens of megabytes: one load costs milliseconds, so only the coarse boundaries and a thinner spread.
    let units: &[usize] = if n > (24 << 20) { &[1 << 24, 1 << 25] } else if n > (4 << 20) { &[1 << 20, 1 << 24] } else { &[4096, 1 << 16, 1 << 20] };
    for &unit in units {
        let mut c = unit;
        while c < n + unit && ks.len() < 6000 { around(&mut ks, c, n); c += unit; }
    }
    let spread = if n > (24 << 20) { 32usize } else { 96 };
    for j in 0..spread { ks.push(j * n / spread); }
    ks.retain(|k| *k < n);
    ks.sort_unstable();
    ks.dedup();
    ks
}

//-----------------------------------------------------------------------------
// C19 (1): support structures along a history of enable / write / load / clone steps

#[derive(Clone, Copy, Debug, Serialize, Deserialize, PartialEq, Eq)]
pub enum SupOp {
    EnableRank,
    EnableSelect,
    EnableSelectZero,
    EnablePredSucc,
    /// Serialize through the simulated writer, load through the simulated reader, continue with the loaded value.
    RoundTrip,
    Clone,
}

#[derive(Clone, Debug, Serialize, Deserialize)]
pub struct Supports {
    pub c: Content,
    pub route: u8,
    pub initial: u8,
    pub ops: Vec<SupOp>,
    pub w: WritePlan,
    pub r: ReadPlan,
}

fn mask_of(bv: &BitVector) -> u8 {
    (bv.supports_rank() as u8) | (bv.supports_select() as u8) << 1 | (bv.supports_select_zero() as u8) << 2
}

/// Answers of `bv` restricted to the supports in `mask`, computed on `reference` (which has everything enabled).
fn answers(bv: &BitVector, mask: u8) -> Vec<u64> {
    let mut out = Vec::new();
    let n = bv.len();
    let pts: Vec<usize> = { let mut v: Vec<usize> = (0..=16u128).map(|k| if n == 0 { 0 } else { ((n as u128 - 1) * k / 16) as usize }).collect(); v.extend([0usize, 63, 64, 511, 512, 4095, 4096].iter().filter(|x| **x < n)); v.sort_unstable(); v.dedup(); v };
    out.push(n as u64); out.push(bv.count_ones() as u64);
    for &i in pts.iter() { if i < n { out.push(bv.get(i) as u64); } }
    if mask & 1 != 0 { for &i in pts.iter() { out.push(bv.rank(i) as u64); } out.push(bv.rank(n) as u64); }
    if mask & 2 != 0 {
        let ones = bv.count_ones();
        for k in 0..=16 { if ones > 0 { let r = (ones - 1) * k / 16; out.push(bv.select(r).map(|x| x as u64).unwrap_or(u64::MAX)); let mut it = bv.select_iter(r); out.push(it.next().map(|x| x.1 as u64).unwrap_or(u64::MAX)); out.push(it.next().map(|x| x.1 as u64).unwrap_or(u64::MAX)); } }
        out.push(bv.select(ones).map(|x| x as u64).unwrap_or(u64::MAX));
    }
    if mask & 4 != 0 {
        let zeros = bv.count_zeros();
        for k in 0..=16 { if zeros > 0 { let r = (zeros - 1) * k / 16; out.push(bv.select_zero(r).map(|x| x as u64).unwrap_or(u64::MAX)); let mut it = bv.select_zero_iter(r); out.push(it.next().map(|x| x.1 as u64).unwrap_or(u64::MAX)); } }
        out.push(bv.select_zero(zeros).map(|x| x as u64).unwrap_or(u64::MAX));
    }
    if mask & 3 == 3 {
        for &i in pts.iter() { if i < n { out.push(bv.predecessor(i).next().map(|x| x.1 as u64).unwrap_or(u64::MAX)); out.push(bv.successor(i).next().map(|x| x.1 as u64).unwrap_or(u64::MAX)); } }
    }
    // Iterators need no support structure, so their answers must be the same under every subset:
    // positioned reads from both ends, with small and large skips.
    let p2 = |x: Option<(usize, usize)>| x.map(|v| (v.0 as u64) << 32 ^ v.1 as u64).unwrap_or(u64::MAX);
    for k in [0usize, 1, 63, 64, 65, 200, 5000] {
        out.push(p2(bv.one_iter().nth(k))); out.push(p2(bv.one_iter().nth_back(k))); out.push(p2(bv.one_iter().rev().nth(k)));
        out.push(p2(bv.zero_iter().nth(k))); out.push(p2(bv.zero_iter().nth_back(k))); out.push(p2(bv.zero_iter().rev().nth(k)));
        out.push(bv.iter().nth(k).map(|b| b as u64).unwrap_or(2)); out.push(bv.iter().nth_back(k).map(|b| b as u64).unwrap_or(2));
    }
    // Consuming adapters after reads from both ends (bounded: every subset for short vectors, the two extreme
    // subsets up to 2^16 bits).
    if n <= 256 || ((mask == 0 || mask == 7) && n <= 1 << 16) {
        let full = n <= 256;
        out.extend(crate::payload::consume_digest(|| bv.iter(), full));
        out.extend(crate::payload::consume_digest(|| bv.one_iter(), full));
        out.extend(crate::payload::consume_digest(|| bv.zero_iter(), full));
    }
    if mask & 2 != 0 && bv.count_ones() > 0 { for k in [0usize, 64, 300] { let mut it = bv.select_iter(bv.count_ones() / 3); out.push(p2(it.nth_back(k))); out.push(p2(it.next())); } }
    if mask & 4 != 0 && bv.count_zeros() > 0 { for k in [0usize, 64, 300] { let mut it = bv.select_zero_iter(bv.count_zeros() / 3); out.push(p2(it.nth_back(k))); out.push(p2(it.next())); } }
    out
}

/// The position of the r-th set bit, found by counting through the bit array: no support structure involved.
fn select_by_scan(raw: &RawVector, r: usize) -> Option<usize> {
    let mut left = r;
    for i in 0..(raw.len() + 63) / 64 {
        let mut w = raw.word(i);
        let c = w.count_ones() as usize;
        if left < c { for _ in 0..left { w &= w - 1; } return Some(i * 64 + w.trailing_zeros() as usize); }
        left -= c;
    }
    None
}

impl Supports {
    /// Two size classes no other scenario reaches: `which == 0`: 2^30 + 2^20 bits with rank support (a sample vector of
    /// more than 2^21 pairs); otherwise 2^32 + 2^21 bits, one set bit in 32768, with select support (samples wider
    /// than 32 bits). One write and one load, coarse transfers.
    pub fn generate_giant(rng: &mut Rng, which: u64) -> Supports {
        let (len, pat, initial) = if which == 0 { ((1usize << 30) + (1 << 20) + rng.range_usize(0, 5000), crate::content::Pat::Random, *rng.pick(&[1u8, 1, 7])) }
            else { ((1usize << 32) + (1 << 21) + rng.range_usize(0, 5000), crate::content::Pat::Every(32_768), *rng.pick(&[2u8, 2, 3])) };
        Supports { c: Content { len, pat, salt: rng.next() & 0xFFFF }, route: 0, initial, ops: vec![SupOp::RoundTrip],
            w: WritePlan { chunk: Chunk::Unbounded, eintr: vec![], fault: None, vectored: false }, r: ReadPlan { chunk: Chunk::Unbounded, eintr: vec![], fault: None } }
    }

    /// Clustered data (dense stretches between sparse ones): the one data class in which select support mixes short
    /// and long superblocks, and keeps mixing them over the whole vector. A short history of enable / write / load.
    pub fn generate_clustered(rng: &mut Rng) -> Supports {
        let k = *rng.pick(&[64u32, 128]);
        let invert = rng.chance(1, 3);
        let len = rng.range_usize(400_000, 2_000_000);
        let all = [SupOp::EnableSelect, SupOp::EnableSelectZero, SupOp::EnablePredSucc, SupOp::RoundTrip, SupOp::RoundTrip, SupOp::Clone];
        let n = rng.range_usize(2, 5);
        let mut ops: Vec<SupOp> = (0..n).map(|_| *rng.pick(&all)).collect();
        ops.push(SupOp::RoundTrip);
        Supports { c: Content { len, pat: crate::content::Pat::Clustered(k, invert), salt: rng.next() & 0xFFFF }, route: rng.below(2) as u8, initial: *rng.pick(&[2u8, 4, 6, 7]), ops,
            w: WritePlan { chunk: Chunk::Unbounded, eintr: vec![], fault: None, vectored: false }, r: ReadPlan { chunk: Chunk::Unbounded, eintr: vec![], fault: None } }
    }

    pub fn generate(rng: &mut Rng, max_bits: usize) -> Supports {
        let len = if rng.chance(1, 60) { rng.range_usize(83_521, 200_000) } else { match rng.below(8) { 0 => 0, 1 => rng.range_usize(1, 70), 2 => rng.range_usize(4000, 4200).min(max_bits), 3 => rng.range_usize(8100, 8300).min(max_bits), _ => crate::content::gen_len(rng, max_bits) } };
        let mut c = Content::generate(rng, len);
        if rng.chance(1, 3) { c.pat = crate::content::Pat::Density(*rng.pick(&[0u16, 3, 30, 500, 970, 997, 1000])); }
        if len > 80_000 && rng.chance(1, 2) { c.pat = *rng.pick(&[crate::content::Pat::Single, crate::content::Pat::AllButOne, crate::content::Pat::Density(1), crate::content::Pat::Ends]); }
        let n = rng.range_usize(1, 10);
        let all = [SupOp::EnableRank, SupOp::EnableSelect, SupOp::EnableSelectZero, SupOp::EnablePredSucc, SupOp::RoundTrip, SupOp::RoundTrip, SupOp::Clone];
        let ops = (0..n).map(|_| *rng.pick(&all)).collect();
        Supports { c, route: rng.below(2) as u8, initial: rng.below(8) as u8, ops, w: WritePlan::generate(rng, 32), r: ReadPlan::generate(rng, 32) }
    }

    pub fn run(&self, prop: &str) -> Outcome {
        let mut out = Outcome::default();
        out.stats.evaluations = 1;
        out.stats.probe_if(self.c.len > 1 << 32, "bitvector of more than 2^32 bits with select support written and loaded");
        out.stats.probe_if(matches!(self.c.pat, crate::content::Pat::Clustered(..)), "clustered bitvector (select support with short and long superblocks interleaved) written and loaded");
        out.stats.probe_if(self.c.len > 1 << 30 && self.c.len < 1 << 32, "bitvector of more than 2^30 bits with rank support written and loaded");
        let v = |clause: &str, site: &str, msg: String| Violation::new(prop, clause, site, msg);
        let built = catch(|| {
            let mut full = build_bv(&self.c, 0, self.route);
            full.enable_rank(); full.enable_select();
            // (Above 2^31 bits the select-zero support is left out: building it walks every unset bit.)
            if self.c.len <= 1 << 31 { full.enable_select_zero(); }
            let full_bytes = { let mut b: Vec<u8> = Vec::new(); full.serialize(&mut b).map(|_| b) };
            let bits: RawVector = build_bv(&self.c, 0, 0).into();
            let reference = answers(&full, mask_of(&full));
            (full, full_bytes, bits, reference)
        });
        let (full, full_bytes, bits, _reference) = match built {
            Ok((f, Ok(b), bits, r)) => (f, b, bits, r),
            Ok((_, Err(e), _, _)) => return out.fail(v("harness", "serialize", format!("{}", e))),
            // A panic of the harness' own code names a file under sim/src; anything else is the library refusing to
            // build a valid bitvector, enable a support structure or answer an in-range query.
            Err(p) if p.contains("/sim/src/") => return out.fail(v("harness", "build", p)),
            Err(p) => return out.fail(v("answers-panic", "BitVector", format!("building the bitvector ({} bits), enabling every support structure and asking in-range queries panicked: {}", self.c.len, p))),
        };
        let run = catch(|| -> Result<(), Violation> {
            let mut cur = build_bv(&self.c, self.initial, self.route);
            let mut model = self.initial;
            let check = |cur: &BitVector, model: u8, step: &str| -> Result<(), Violation> {
                if mask_of(cur) != model { return Err(v("supports-mismatch", step, format!("after {}: supports (rank,select,select_zero) = {:03b}, expected {:03b}", step, mask_of(cur), model))); }
                if cur.supports_pred_succ() != (model & 3 == 3) { return Err(v("supports-mismatch", step, format!("after {}: supports_pred_succ = {}", step, cur.supports_pred_succ()))); }
                let raw: &RawVector = cur.as_ref();
                if raw != &bits { return Err(v("bits-changed", step, format!("after {}: the bit array changed", step))); }
                if cur.count_ones() != full.count_ones() || cur.len() != full.len() { return Err(v("bits-changed", step, format!("after {}: len/count_ones changed", step))); }
                if answers(cur, model) != answers(&full, model) { return Err(v("answers-changed", step, format!("after {}: answers differ from the fully enabled original (supports {:03b})", step, model))); }
                // With the support structure the answer is the one that counting through the bits gives without it.
                let ones = cur.count_ones();
                if model & 2 != 0 && ones > 0 {
                    for r in [0usize, ones / 2, ones - 1, 4096 * 31 + 5, 4096 * 32 + 5, 4096 * 63 + 5] {
                        if r < ones && cur.select(r) != select_by_scan(&bits, r) { return Err(v("answers-changed", step, format!("after {}: select({}) = {:?} with the support structure, counting through the bits gives {:?}", step, r, cur.select(r), select_by_scan(&bits, r)))); }
                    }
                }
                Ok(())
            };
            check(&cur, model, "construction")?;
            for (i, op) in self.ops.iter().enumerate() {
                let step = format!("{:?}", op);
                match op {
                    SupOp::EnableRank => { cur.enable_rank(); model |= 1; },
                    SupOp::EnableSelect => { cur.enable_select(); model |= 2; },
                    SupOp::EnableSelectZero => { cur.enable_select_zero(); model |= 4; },
                    SupOp::EnablePredSucc => { cur.enable_pred_succ(); model |= 3; },
                    SupOp::Clone => { cur = cur.clone(); },
                    SupOp::RoundTrip => {
                        let size = cur.size_in_bytes();
                        let mut w = SimWriter::new(self.w.clone(), size);
                        cur.serialize(&mut w).map_err(|e| v("ser-error", "BitVector", format!("step {}: {}", i, e)))?;
                        if w.position() != size { return Err(v("size-mismatch", "BitVector", format!("step {}: wrote {} bytes, size_in_bytes {} (supports {:03b})", i, w.position(), size, model))); }
                        let mut r = SimReader::new(&w.data, self.r.clone());
                        let loaded = BitVector::load(&mut r).map_err(|e| v("load-error", "BitVector", format!("step {}: loading a bitvector written with supports {:03b} failed: {}", i, model, e)))?;
                        if r.position() != size { return Err(v("load-position", "BitVector", format!("step {}: reader at {} of {}", i, r.position(), size))); }
                        if loaded != cur { return Err(v("load-not-equal", "BitVector", format!("step {}: loaded != written (supports {:03b})", i, model))); }
                        cur = loaded;
                    },
                }
                check(&cur, model, &step)?;
                // Idempotence: enabling what is enabled changes nothing.
                let before = cur.clone();
                if model & 1 != 0 { cur.enable_rank(); }
                if model & 2 != 0 { cur.enable_select(); }
                if model & 4 != 0 { cur.enable_select_zero(); }
                if model & 3 == 3 { cur.enable_pred_succ(); }
                if cur != before { return Err(v("enable-not-idempotent", &step, format!("re-enabling supports {:03b} changed the value", model))); }
            }
            // A query whose support structure is absent is the caller's error and normally panics. If it answers
            // instead, the answer has to be the one the fully enabled original gives - enabling must not change it.
            {
                let probe_at = |n: usize| if n == 0 { 0 } else { n / 2 };
                if model & 2 == 0 && cur.count_ones() > 0 {
                    let r = probe_at(cur.count_ones());
                    if let Ok(ans) = catch(|| cur.select(r)) { if ans != full.select(r) { return Err(v("answers-changed", "select-without-support", format!("select({}) answers {:?} without its support structure and {:?} once it is enabled", r, ans, full.select(r)))); } }
                    if let Ok(ans) = catch(|| cur.select_iter(r).next()) { if ans != full.select_iter(r).next() { return Err(v("answers-changed", "select-without-support", format!("select_iter({}) yields {:?} without its support structure and {:?} once it is enabled", r, ans, full.select_iter(r).next()))); } }
                }
                if model & 4 == 0 && cur.count_zeros() > 0 {
                    let r = probe_at(cur.count_zeros());
                    if let Ok(ans) = catch(|| cur.select_zero(r)) { if ans != full.select_zero(r) { return Err(v("answers-changed", "select-zero-without-support", format!("select_zero({}) answers {:?} without its support structure and {:?} once it is enabled", r, ans, full.select_zero(r)))); } }
                }
                if model & 1 == 0 && cur.len() > 1 {
                    let i = cur.len() / 2;
                    if let Ok(ans) = catch(|| cur.rank(i)) { if ans != full.rank(i) { return Err(v("answers-changed", "rank-without-support", format!("rank({}) answers {} without its support structure and {} once it is enabled", i, ans, full.rank(i)))); } }
                }
                if model & 3 != 3 && cur.len() > 1 && cur.count_ones() > 0 {
                    let i = cur.len() / 2;
                    if let Ok(ans) = catch(|| cur.predecessor(i).next()) { if ans != full.predecessor(i).next() { return Err(v("answers-changed", "predsucc-without-support", format!("predecessor({}) yields {:?} without its support structures and {:?} once they are enabled", i, ans, full.predecessor(i).next()))); } }
                    if let Ok(ans) = catch(|| cur.successor(i).next()) { if ans != full.successor(i).next() { return Err(v("answers-changed", "predsucc-without-support", format!("successor({}) yields {:?} without its support structures and {:?} once they are enabled", i, ans, full.successor(i).next()))); } }
                }
            }
            // Enable the rest in a scenario-dependent order; must equal the fully enabled original.
            let order: [u8; 3] = match self.c.salt % 6 { 0 => [0, 1, 2], 1 => [0, 2, 1], 2 => [1, 0, 2], 3 => [1, 2, 0], 4 => [2, 0, 1], _ => [2, 1, 0] };
            for o in order { match o { 0 => cur.enable_rank(), 1 => cur.enable_select(), _ => if self.c.len <= 1 << 31 { cur.enable_select_zero() } } }
            if cur != full { return Err(v("not-equal-to-full", "enable-rest", format!("enabling the remaining supports (order {:?}) does not give the fully enabled original", order))); }
            let mut b: Vec<u8> = Vec::new();
            cur.serialize(&mut b).map_err(|e| v("ser-error", "BitVector", format!("{}", e)))?;
            if b != full_bytes { return Err(v("not-equal-to-full", "serialize", "serialization differs from the fully enabled original".to_string())); }
            let mut a = Vec::new(); let mut c2 = Vec::new();
            cur.probe(&mut a); full.probe(&mut c2);
            if a != c2 { return Err(v("answers-changed", "final", "query battery differs from the fully enabled original".to_string())); }
            Ok(())
        });
        out.stats.probe(&format!("initial subset {:03b}", self.initial));
        out.stats.probe_if(self.ops.iter().filter(|o| **o == SupOp::RoundTrip).count() >= 2, "two or more write/load steps in one history");
        out.stats.probe_if(self.c.len == 0, "empty bitvector");
        out.stats.sigs.insert(crate::rng::fnv(format!("{:?}{:?}{}", self.ops, self.initial, self.c.len.min(70)).as_bytes()));
        match run {
            Ok(Ok(())) => out,
            Ok(Err(viol)) => out.fail(viol),
            Err(p) => out.fail(v("panic", "supports-history", p)),
        }
    }

    pub fn simpler(&self) -> Vec<Supports> {
        let mut out = Vec::new();
        for i in 0..self.ops.len() { let mut s = self.clone(); s.ops.remove(i); out.push(s); }
        for c in self.c.simpler() { let mut s = self.clone(); s.c = c; out.push(s); }
        if self.initial != 0 { let mut s = self.clone(); s.initial = 0; out.push(s); for b in 0..3 { if self.initial & (1 << b) != 0 { let mut s = self.clone(); s.initial &= !(1 << b); out.push(s); } } }
        if self.route != 0 { let mut s = self.clone(); s.route = 0; out.push(s); }
        if !self.w.chunk.is_unbounded() || !self.w.eintr.is_empty() { let mut s = self.clone(); s.w = WritePlan::plain(); out.push(s); }
        if !self.r.chunk.is_unbounded() || !self.r.eintr.is_empty() { let mut s = self.clone(); s.r = ReadPlan::plain(); out.push(s); }
        out
    }
}

//-----------------------------------------------------------------------------
// C19 (2): files written by a foreign implementation: embedded bitvectors carry no support structures

/// Walks a serialized structure following SERIALIZATION.md and rewrites every embedded plain
/// bitvector so that its three optional support structures are absent.
pub mod foreign {
    fn elem(b: &[u8], pos: usize) -> Option<u64> {
        b.get(pos..pos + 8).map(|s| u64::from_le_bytes(s.try_into().unwrap()))
    }

    fn copy(b: &[u8], pos: &mut usize, n_elems: usize, out: &mut Vec<u8>) -> Option<()> {
        let end = *pos + 8 * n_elems;
        out.extend_from_slice(b.get(*pos..end)?);
        *pos = end;
        Some(())
    }

    /// RawVector: len, word count, words.
    fn raw(b: &[u8], pos: &mut usize, out: &mut Vec<u8>) -> Option<()> {
        let words = elem(b, *pos + 8)? as usize;
        copy(b, pos, 2 + words, out)
    }

    /// IntVector: len, width, RawVector.
    pub fn int(b: &[u8], pos: &mut usize, out: &mut Vec<u8>) -> Option<()> {
        copy(b, pos, 2, out)?;
        raw(b, pos, out)
    }

    /// BitVector: ones, RawVector, 3 x Option. `keep` yields, per embedded bitvector, the mask of optional structures to keep.
    pub fn bitvector(b: &[u8], pos: &mut usize, out: &mut Vec<u8>, keep: &mut dyn FnMut() -> u8) -> Option<()> {
        let keep = keep();
        copy(b, pos, 1, out)?;
        raw(b, pos, out)?;
        for i in 0..3 {
            let size = elem(b, *pos)? as usize;
            if keep & (1 << i) != 0 {
                copy(b, pos, 1 + size, out)?;
            } else {
                out.extend_from_slice(&0u64.to_le_bytes());
                *pos += 8 * (1 + size);
                if *pos > b.len() { return None; }
            }
        }
        Some(())
    }

    pub fn sparse(b: &[u8], pos: &mut usize, out: &mut Vec<u8>, keep: &mut dyn FnMut() -> u8) -> Option<()> {
        copy(b, pos, 1, out)?;
        bitvector(b, pos, out, keep)?;
        int(b, pos, out)
    }

    pub fn wm_core(b: &[u8], pos: &mut usize, out: &mut Vec<u8>, keep: &mut dyn FnMut() -> u8) -> Option<()> {
        let width = elem(b, *pos)? as usize;
        copy(b, pos, 1, out)?;
        for _ in 0..width { bitvector(b, pos, out, keep)?; }
        Some(())
    }

    pub fn wm(b: &[u8], pos: &mut usize, out: &mut Vec<u8>, keep: &mut dyn FnMut() -> u8) -> Option<()> {
        copy(b, pos, 1, out)?;
        wm_core(b, pos, out, keep)?;
        int(b, pos, out)
    }
}

#[derive(Clone, Debug, Serialize, Deserialize)]
pub struct Foreign {
    /// Must be a Bv, Sparse, WmCore or Wm leaf.
    pub payload: Payload,
    /// Mask of support structures the foreign writer keeps in embedded bitvectors (0 = none).
    pub keep: u8,
    /// If set, every embedded bitvector gets its own mask derived from this seed (levels of a wavelet matrix
    /// written with different support subsets), and `keep` is ignored.
    #[serde(default)]
    pub keep_seed: Option<u64>,
    /// Sparse vectors only: the foreign writer encodes the set itself (high / low parts per the format document)
    /// and chooses a low-part width that differs from the library's by this much (0 = take the library's bytes).
    #[serde(default)]
    pub alt_width: i8,
    pub r: ReadPlan,
}

impl Foreign {
    pub fn generate(rng: &mut Rng, max_len: usize) -> Foreign {
        let mut cfg = GenCfg::swarm(rng, Family::All, max_len);
        cfg.kinds = (1 << 10) | (1 << 14) | (1 << 15) | (1 << 18) | (1 << 19);
        let mut p = gen_payload(rng, &cfg);
        loop {
            if matches!(p.leaf, Leaf::Bv { .. } | Leaf::Sparse { .. } | Leaf::WmCore { .. } | Leaf::Wm { .. }) { break; }
            p = gen_payload(rng, &cfg);
        }
        // Bare, or as the value of an Option (whose size header the foreign writer has to recompute).
        p.opt = if rng.chance(1, 3) { 1 } else { 0 }; p.none_at = None;
        let keep = if rng.chance(2, 3) { 0 } else { rng.below(8) as u8 };
        let keep_seed = if rng.chance(1, 4) { Some(rng.next() & 0xFFFF) } else { None };
        let alt_width = if matches!(p.leaf, Leaf::Sparse { multiset: false, .. }) && rng.chance(1, 3) { *rng.pick(&[-1i8, 1, 1, 2]) } else { 0 };
        if alt_width != 0 { p.opt = 0; }
        Foreign { payload: p, keep, keep_seed, alt_width, r: ReadPlan::generate(rng, 32) }
    }

    pub fn run(&self, prop: &str) -> Outcome {
        let mut out = Outcome::default();
        out.stats.evaluations = 1;
        let v = |clause: &str, site: &str, msg: String| Violation::new(prop, clause, site, msg);
        let val = match catch(|| self.payload.build()) { Ok(x) => x, Err(p) => return out.fail(v("harness", "build", p)) };
        let tn = val.type_name();
        let bytes = match catch(|| val.serialize_vec()) { Ok(Ok(b)) => b, _ => return out.fail(v("harness", "serialize", "serialize failed".into())) };
        // A foreign writer that encodes the set on its own, with its own (admissible) low-part width.
        if self.alt_width != 0 {
            if let Leaf::Sparse { c, stride, multiset: false } = &self.payload.leaf {
                let (universe, pos) = crate::payload::sparse_positions(c, *stride, false);
                if !pos.is_empty() && universe > 0 {
                    let ideal = ((universe as f64 * 2.0_f64.ln()) / (pos.len() as f64)).log2().max(1.0).round() as i64;
                    let w = (ideal + self.alt_width as i64).clamp(1, 63) as usize;
                    let buckets = (universe >> w) + if universe & ((1usize << w) - 1) != 0 { 1 } else { 0 };
                    if w as i64 != ideal && pos.len() + buckets <= (1 << 26) {
                        use simple_sds::ops::Push;
                        use simple_sds::raw_vector::AccessRaw;
                        let mut high = RawVector::with_len(pos.len() + buckets, false);
                        let mut low = simple_sds::int_vector::IntVector::new(w).unwrap();
                        for (i, p) in pos.iter().enumerate() { high.set_bit((p >> w) + i, true); low.push((*p & ((1usize << w) - 1)) as u64); }
                        let mut alt: Vec<u8> = Vec::new();
                        let _ = SdsSerialize::serialize(&universe, &mut alt);
                        let _ = BitVector::from(high).serialize(&mut alt);
                        let _ = low.serialize(&mut alt);
                        let mut r = SimReader::new(&alt, self.r.clone());
                        let loaded = match catch(|| val.load(&mut r)) {
                            Ok(Ok(l)) => l,
                            Ok(Err(e)) => return out.fail(v("foreign-load-error", tn, format!("{}: a file that encodes the same set with low-part width {} (the library would choose {}) and no support structures does not load: {}", self.payload.describe(), w, ideal, e))),
                            Err(p) => return out.fail(v("panic", tn, format!("loading a sparse vector written with low-part width {} panicked: {}", w, p))),
                        };
                        if r.position() != alt.len() { return out.fail(v("load-position", tn, format!("reader at {} of {} after loading the foreign sparse vector", r.position(), alt.len()))); }
                        match catch(|| (val.probe(), loaded.probe())) {
                            Ok((a, b)) => if a != b { return out.fail(v("foreign-answers", tn, format!("{}: the same set written with low-part width {} answers differently", self.payload.describe(), w))); },
                            Err(p) => return out.fail(v("foreign-query-panic", tn, format!("{}: querying the sparse vector written with low-part width {} panicked: {}", self.payload.describe(), w, p))),
                        }
                        out.stats.io("R", &r.stats);
                        out.stats.probe("foreign sparse vector with a different low-part width");
                    }
                }
            }
        }
        let mut stripped: Vec<u8> = Vec::new();
        let wrapped = self.payload.opt == 1;
        let mut pos = if wrapped { 8usize } else { 0 };
        let mut counter = 0u64;
        let uniform = self.keep;
        let seed = self.keep_seed;
        let mut first_mask: Option<u8> = None;
        let mut masks_differ = false;
        let mut keep_fn = || -> u8 {
            let m = match seed {
                None => uniform,
                Some(sd) => { let mut st = sd.wrapping_add(counter.wrapping_mul(0x9E37_79B9_7F4A_7C15)); let x = crate::rng::splitmix(&mut st); match x % 4 { 0 => 7, 1 => 0, _ => (x >> 8) as u8 & 7 } },
            };
            counter += 1;
            match first_mask { None => first_mask = Some(m), Some(f) => if f != m { masks_differ = true; } }
            m
        };
        let ok = match &self.payload.leaf {
            Leaf::Bv { .. } => foreign::bitvector(&bytes, &mut pos, &mut stripped, &mut keep_fn),
            Leaf::Sparse { .. } => foreign::sparse(&bytes, &mut pos, &mut stripped, &mut keep_fn),
            Leaf::WmCore { .. } => foreign::wm_core(&bytes, &mut pos, &mut stripped, &mut keep_fn),
            Leaf::Wm { .. } => foreign::wm(&bytes, &mut pos, &mut stripped, &mut keep_fn),
            _ => return out.fail(v("harness", "foreign", "unsupported leaf".into())),
        };
        if wrapped {
            // The option's size header counts the elements of the (now smaller) body.
            let mut with_header = ((stripped.len() / 8) as u64).to_le_bytes().to_vec();
            with_header.extend_from_slice(&stripped);
            stripped = with_header;
            out.stats.probe("foreign composite inside an Option");
        }
        out.stats.probe_if(masks_differ, "embedded bitvectors written with different support subsets");
        let effective_keep = first_mask.unwrap_or(self.keep);
        if ok.is_none() || pos != bytes.len() {
            // The library's own bytes do not parse by the documented field order. That is a format question (C07), not this property.
            out.stats.probe("foreign composer could not parse the library's bytes (not judged here)");
            return out;
        }
        out.stats.probe_if(stripped.len() < bytes.len(), "support structures actually removed");
        let mut r = SimReader::new(&stripped, self.r.clone());
        let loaded = match catch(|| val.load(&mut r)) {
            Ok(Ok(l)) => l,
            Ok(Err(e)) => return out.fail(v("foreign-load-error", tn, format!("{}: file without support structures (kept mask {:03b}) does not load: {}", self.payload.describe(), self.keep, e))),
            Err(p) => return out.fail(v("panic", tn, format!("loading a file without support structures panicked: {}", p))),
        };
        out.stats.io("R", &r.stats);
        out.stats.sigs.insert(r.stats.sig ^ crate::rng::fnv(tn.as_bytes()));
        if r.position() != stripped.len() {
            return out.fail(v("load-position", tn, format!("reader at {} of {} after loading the foreign file", r.position(), stripped.len())));
        }
        let is_bv = matches!(self.payload.leaf, Leaf::Bv { .. });
        if is_bv {
            // A plain bitvector reports exactly the subset present in the file.
            let l = loaded.as_any().downcast_ref::<crate::payload::Holder<BitVector>>().map(|h| mask_of(&h.0))
                .or_else(|| loaded.as_any().downcast_ref::<crate::payload::Holder<Option<BitVector>>>().and_then(|h| h.0.as_ref().map(mask_of)));
            let orig = if let Leaf::Bv { supports, .. } = self.payload.leaf { supports } else { 0 };
            if l != Some(orig & effective_keep) {
                return out.fail(v("supports-mismatch", tn, format!("file carries supports {:03b}, loaded value reports {:?}", orig & effective_keep, l)));
            }
        } else {
            // Composite structures must work: equal to the library-built value, same answers.
            if !val.eq_dyn(loaded.as_ref()) {
                return out.fail(v("foreign-not-equal", tn, format!("{}: value loaded from a support-free file differs from the library-built one", self.payload.describe())));
            }
            match catch(|| (val.probe(), loaded.probe())) {
                Ok((a, b)) => if a != b { return out.fail(v("foreign-answers", tn, "query battery differs on the value loaded from a support-free file".into())); },
                Err(p) => return out.fail(v("foreign-query-panic", tn, format!("{}: querying the value loaded from a support-free file panicked: {}", self.payload.describe(), p))),
            }
        }
        out.stats.probe(&format!("foreign file: {}", tn.rsplit("::").next().unwrap_or(tn)));
        // The same foreign bytes as a file, loaded through load_from.
        {
            let fs = FsSession::start(FsPlan { chunk: self.r.chunk.clone(), eintr: self.r.eintr.clone(), fault: None }, 2 * stripped.len());
            let path = crate::scratch::file("simforeign");
            fs.put(&path, stripped.clone());
            let r = catch(|| val.load_from(&path));
            if fs.with(|st| st.counters.opens) == 0 {
                out.stats.probe("file seam bypassed: the code under test opened the real file system directly");
            } else {
                match r {
                    Ok(Ok(l)) => {
                        if !is_bv && !val.eq_dyn(l.as_ref()) { return out.fail(v("foreign-not-equal", "load_from", format!("{}: value loaded with load_from from a support-free file differs from the library-built one", self.payload.describe()))); }
                        out.stats.probe("foreign file loaded through load_from");
                    },
                    Ok(Err(e)) => return out.fail(v("foreign-load-error", "load_from", format!("{}: file without support structures (kept mask {:03b}) does not load through load_from: {}", self.payload.describe(), self.keep, e))),
                    Err(p) => return out.fail(v("panic", "load_from", p)),
                }
            }
        }
        out
    }

    pub fn simpler(&self) -> Vec<Foreign> {
        let mut out = Vec::new();
        for p in self.payload.simpler() { if p.opt <= 1 && p.none_at.is_none() { let mut s = self.clone(); s.payload = p; out.push(s); } }
        if self.keep != 0 { let mut s = self.clone(); s.keep = 0; out.push(s); }
        if self.keep_seed.is_some() { let mut s = self.clone(); s.keep_seed = None; out.push(s); }
        if self.alt_width != 0 { let mut s = self.clone(); s.alt_width = 0; out.push(s); }
        if self.payload.opt == 1 { let mut s = self.clone(); s.payload.opt = 0; out.push(s); }
        if !self.r.chunk.is_unbounded() || !self.r.eintr.is_empty() { let mut s = self.clone(); s.r = ReadPlan::plain(); out.push(s); }
        out
    }
}

//-----------------------------------------------------------------------------
// C19 (3): skipping an optional structure moves the reader exactly past it

#[derive(Clone, Debug, Serialize, Deserialize)]
pub struct Skip {
    pub prefix: Option<Payload>,
    /// Must have `opt >= 1`.
    pub skipped: Payload,
    pub sentinel: Payload,
    /// Write the skipped option with `absent_option` instead (only meaningful if it is `None` at level 0).
    pub absent: bool,
    pub r: ReadPlan,
}

impl Skip {
    pub fn generate(rng: &mut Rng, max_len: usize) -> Skip {
        let cfg = GenCfg::swarm(rng, Family::All, max_len);
        let prefix = if rng.chance(1, 2) { Some(gen_payload(rng, &cfg)) } else { None };
        let mut skipped = gen_payload(rng, &cfg);
        if skipped.opt == 0 { skipped.opt = 1 + rng.below(3) as u8; skipped.none_at = if rng.chance(1, 5) { Some(rng.below(skipped.opt as u64) as u8) } else { None }; }
        let absent = rng.chance(1, 6);
        if absent { skipped.none_at = Some(0); }
        let sentinel = if rng.chance(1, 2) { Payload::plain(Leaf::U64(0xA5A5_0000_FFFF_1234)) } else { gen_payload(rng, &cfg) };
        Skip { prefix, skipped, sentinel, absent, r: ReadPlan::generate(rng, 32) }
    }

    pub fn run(&self, prop: &str) -> Outcome {
        let mut out = Outcome::default();
        out.stats.evaluations = 1;
        let v = |clause: &str, site: &str, msg: String| Violation::new(prop, clause, site, msg);
        let mut specs: Vec<Payload> = Vec::new();
        if let Some(p) = &self.prefix { specs.push(p.clone()); }
        specs.push(self.skipped.clone());
        specs.push(self.sentinel.clone());
        let vals = match build_all(prop, &specs) { Ok(x) => x, Err(e) => return out.fail(e) };
        let mut stream: Vec<u8> = Vec::new();
        let mut ledger = vec![0usize];
        let skip_idx = specs.len() - 2;
        for (i, val) in vals.iter().enumerate() {
            if i == skip_idx && self.absent {
                let before = stream.len();
                if let Err(e) = serialize::absent_option(&mut stream) { return out.fail(v("harness", "absent_option", format!("{}", e))); }
                if stream.len() - before != 8 * serialize::absent_option_size() {
                    return out.fail(v("absent-size", "absent_option", format!("absent_option wrote {} bytes, absent_option_size() = {} elements", stream.len() - before, serialize::absent_option_size())));
                }
                // It must be byte-identical to a serialized None of the target type.
                match val.serialize_vec() { Ok(b) => if b[..] != stream[before..] { return out.fail(v("absent-bytes", "absent_option", format!("absent_option differs from a serialized None of {}", val.type_name()))); }, Err(e) => return out.fail(v("harness", "serialize", format!("{}", e))) }
                out.stats.probe("absent_option written");
            } else {
                match catch(|| val.serialize_vec()) { Ok(Ok(b)) => stream.write_all(&b).unwrap(), _ => return out.fail(v("harness", "serialize", "serialize failed".into())) }
            }
            ledger.push(stream.len());
        }
        let mut r = SimReader::new(&stream, self.r.clone());
        let res = catch(|| -> Result<(), Violation> {
            for (i, val) in vals.iter().enumerate() {
                if i == skip_idx {
                    serialize::skip_option(&mut r).map_err(|e| v(if r.stats.exceeded_cap { "no-progress" } else { "skip-error" }, "skip_option", format!("skip_option over {} failed on a complete stream: {}", specs[i].describe(), e)))?;
                    if r.position() != ledger[i + 1] {
                        return Err(v("skip-position", "skip_option", format!("after skipping {} ({} bytes) the reader is at byte {}, the next structure starts at {}", specs[i].describe(), ledger[i + 1] - ledger[i], r.position(), ledger[i + 1])));
                    }
                } else {
                    let l = val.load(&mut r).map_err(|e| v("load-error", val.type_name(), format!("structure {} ({}) next to a skipped option failed to load: {}", i, specs[i].describe(), e)))?;
                    if r.position() != ledger[i + 1] { return Err(v("load-position", val.type_name(), format!("reader at {} expected {}", r.position(), ledger[i + 1]))); }
                    if !val.eq_dyn(l.as_ref()) { return Err(v(if i > skip_idx { "sentinel-damaged" } else { "load-not-equal" }, val.type_name(), format!("structure {} loads differently after skip_option", i))); }
                }
            }
            Ok(())
        });
        out.stats.io("R", &r.stats);
        if nontrivial(&r.stats) { out.stats.sigs.insert(r.stats.sig ^ 0x5C19); } else { out.stats.sigs.insert(crate::rng::fnv(format!("{}|{}", self.skipped.opt, vals[skip_idx].type_name()).as_bytes())); }
        out.stats.probe_if(self.skipped.opt >= 3, "skip over a 3-level nested option");
        out.stats.probe_if(self.skipped.none_at.is_some(), "skip over None");
        out.stats.probe_if(r.stats.eintr > 0, "EINTR while skipping or loading");
        out.stats.probe_if(matches!(&self.skipped.leaf, Leaf::Bv { supports, .. } if *supports != 0), "skip over a bitvector with supports");
        // The skipped option also loads as what it is (absent_option => None).
        if self.absent {
            let mut s = &stream[ledger[skip_idx]..ledger[skip_idx + 1]];
            match vals[skip_idx].load_slice(&mut s) {
                Ok(l) => if !vals[skip_idx].eq_dyn(l.as_ref()) { return out.fail(v("absent-loads-some", "absent_option", "absent_option did not load as None".into())); },
                Err(e) => return out.fail(v("load-error", "absent_option", format!("{}", e))),
            }
        }
        match res {
            Ok(Ok(())) => out,
            Ok(Err(viol)) => out.fail(viol),
            Err(p) => out.fail(v("panic", "skip_option", p)),
        }
    }

    pub fn simpler(&self) -> Vec<Skip> {
        let mut out = Vec::new();
        if self.prefix.is_some() { let mut s = self.clone(); s.prefix = None; out.push(s); }
        for p in self.skipped.simpler() { if p.opt >= 1 { let mut s = self.clone(); s.skipped = p; if s.absent && s.skipped.none_at != Some(0) { s.absent = false; } out.push(s); } }
        for p in self.sentinel.simpler() { let mut s = self.clone(); s.sentinel = p; out.push(s); }
        if let Some(pre) = &self.prefix { for p in pre.simpler() { let mut s = self.clone(); s.prefix = Some(p); out.push(s); } }
        if !self.r.chunk.is_unbounded() || !self.r.eintr.is_empty() { let mut s = self.clone(); s.r = ReadPlan::plain(); out.push(s); }
        out
    }
}

//-----------------------------------------------------------------------------
// C14 (file route): serialize_to / load_from on a failing file system

#[derive(Clone, Copy, Debug, Serialize, Deserialize, PartialEq, Eq)]
pub enum FileClause {
    /// `serialize_to` with a file-size limit at every byte.
    ToFull,
    /// `serialize_to` with every write call failing once.
    ToWriteOnce,
    /// `serialize_to` with every write call failing from then on.
    ToWriteFrom,
    /// `serialize_to` / `load_from` with a failing open.
    Open,
    /// `load_from` on the file cut after every byte.
    FromTrunc,
    /// `load_from` with a read error at every byte.
    FromErr,
}

#[derive(Clone, Debug, Serialize, Deserialize)]
pub struct FileFault {
    pub payload: Payload,
    pub clause: FileClause,
    pub chunk: Chunk,
    pub eintr: Vec<u64>,
    pub kind: Kind,
    /// `None`: every fault point; `Some(k)`: only this one.
    pub point: Option<u64>,
}

impl FileFault {
    pub fn generate(rng: &mut Rng, max_len: usize) -> FileFault {
        let clause = *rng.pick(&[FileClause::ToFull, FileClause::ToFull, FileClause::ToWriteOnce, FileClause::ToWriteFrom, FileClause::Open, FileClause::FromTrunc, FileClause::FromTrunc, FileClause::FromErr]);
        let cfg = GenCfg::swarm(rng, Family::All, max_len);
        let payload = gen_payload(rng, &cfg);
        let chunk = match rng.below(3) { 0 => Chunk::Unbounded, 1 => Chunk::Max(*rng.pick(&[1usize, 7, 8, 64, 4096])), _ => Chunk::generate(rng) };
        let eintr = if rng.chance(1, 3) { crate::simio::gen_eintr(rng, 32) } else { Vec::new() };
        let kind = match clause { FileClause::FromErr => *rng.pick(&READ_KINDS), FileClause::Open => *rng.pick(&[Kind::PermissionDenied, Kind::NotFound, Kind::Other]), _ => *rng.pick(&WRITE_KINDS) };
        FileFault { payload, clause, chunk, eintr, kind, point: None }
    }

    fn one(&self, prop: &str, val: &dyn DynVal, bytes: &[u8], k: u64, stats: &mut Stats) -> Option<Violation> {
        use crate::simfs::FsFault;
        let path = crate::scratch::file("simfilefault");
        let writing = matches!(self.clause, FileClause::ToFull | FileClause::ToWriteOnce | FileClause::ToWriteFrom) || (self.clause == FileClause::Open && k == 0);
        let fault = match self.clause {
            FileClause::ToFull => Some(FsFault::Full(k, self.kind)),
            FileClause::ToWriteOnce => Some(FsFault::WriteOnce(k, self.kind)),
            FileClause::ToWriteFrom => Some(FsFault::WriteFrom(k, self.kind)),
            FileClause::Open => Some(FsFault::Open(0, self.kind)),
            FileClause::FromTrunc => None,
            FileClause::FromErr => Some(FsFault::ReadAt(k, self.kind)),
        };
        let fs = FsSession::start(FsPlan { chunk: self.chunk.clone(), eintr: self.eintr.clone(), fault }, 2 * bytes.len());
        stats.evaluations += 1;
        let tn = val.type_name();
        let result = if writing {
            fs.put(&path, vec![0x11; 5]);
            let r = catch(|| val.serialize_to(&path));
            let file = fs.file(&path).unwrap_or_default();
            match r {
                Err(p) => Some(Violation::new(prop, "serialize-to-panic", "serialize_to", format!("{}: fault {:?} point {}: {}", tn, self.clause, k, p))),
                Ok(Ok(())) if file != bytes => Some(Violation::new(prop, "serialize-to-silent", "serialize_to", format!("{} ({} bytes): the file system failed ({:?}, point {}), serialize_to returned Ok and left {} bytes that differ from the serialization", self.payload.describe(), bytes.len(), self.clause, k, file.len()))),
                Ok(Ok(())) => { stats.probe("file fault absorbed: file complete"); None },
                Ok(Err(_)) => None,
            }
        } else {
            let content = if self.clause == FileClause::FromTrunc { bytes[..k as usize].to_vec() } else { bytes.to_vec() };
            fs.put(&path, content);
            match catch(|| val.load_from(&path).map(|_| ())) {
                Err(p) => Some(Violation::new(prop, "load-from-panic", "load_from", format!("{}: {:?} point {}: {}", tn, self.clause, k, p))),
                Ok(Ok(())) => Some(Violation::new(prop, "load-from-accepts", "load_from", format!("{} ({} bytes): {:?} at byte {}: load_from returned Ok", self.payload.describe(), bytes.len(), self.clause, k))),
                Ok(Err(_)) => None,
            }
        };
        let leaked = fs.open_handles();
        if fs.with(|st| st.counters.opens) == 0 {
            let _ = std::fs::remove_file(&path);
            stats.probe("file seam bypassed: the code under test opened the real file system directly");
            return None;
        }
        fs.with(|st| {
            stats.steps += st.io.calls + st.counters.opens;
            stats.fault("F1-open", st.counters.open_failed);
            stats.fault("F3-full", st.counters.full_hits);
            stats.fault("F4-write", st.counters.write_failed);
            stats.fault("R4-error", st.counters.read_failed);
            stats.fault("R3-eof", st.io.eof);
            stats.fault("W1-short", if writing { st.io.short } else { 0 });
            stats.fault("R1-short", if writing { 0 } else { st.io.short });
            stats.sigs.insert(st.io.sig ^ 0xF11E);
        });
        if result.is_none() && leaked != 0 {
            return Some(Violation::new(prop, "handle-leak", if writing { "serialize_to" } else { "load_from" }, format!("{} simulated handles still open after a failed call", leaked)));
        }
        stats.probe(if writing { "serialize_to on a failing file system" } else { "load_from on a cut or failing file" });
        result
    }

    fn points(&self, val: &dyn DynVal, bytes: &[u8]) -> Vec<u64> {
        if let Some(k) = self.point { return vec![k]; }
        match self.clause {
            FileClause::ToFull | FileClause::FromTrunc | FileClause::FromErr if bytes.len() > 8192 => sample_points_of(bytes.len()).into_iter().map(|k| k as u64).collect(),
            FileClause::ToFull | FileClause::FromTrunc | FileClause::FromErr => (0..bytes.len() as u64).collect(),
            FileClause::Open => vec![0, 1],
            FileClause::ToWriteOnce | FileClause::ToWriteFrom => {
                // Dry run to count the write calls.
                let fs = FsSession::start(FsPlan { chunk: self.chunk.clone(), eintr: self.eintr.clone(), fault: None }, 2 * bytes.len());
                let p = crate::scratch::file("simfilefault");
                let _ = catch(|| val.serialize_to(&p));
                let _ = std::fs::remove_file(&p);
                let n = fs.with(|st| st.counters.writes);
                (0..n).collect()
            },
        }
    }

    pub fn run(&self, prop: &str) -> Outcome {
        let mut out = Outcome::default();
        let val = match catch(|| self.payload.build()) { Ok(v) => v, Err(msg) => return out.fail(Violation::new(prop, "harness", "build", msg)) };
        let bytes = match catch(|| val.serialize_vec()) { Ok(Ok(b)) => b, _ => return out.fail(Violation::new(prop, "harness", "serialize", "serialize failed".into())) };
        for k in self.points(val.as_ref(), &bytes) {
            if let Some(mut v) = self.one(prop, val.as_ref(), &bytes, k, &mut out.stats) {
                v.message = format!("[fault point {}] {}", k, v.message);
                return out.fail(v);
            }
        }
        out
    }

    pub fn narrow_candidates(&self) -> Vec<FileFault> {
        if self.point.is_some() { return Vec::new(); }
        let val = match catch(|| self.payload.build()) { Ok(v) => v, Err(_) => return Vec::new() };
        let bytes = match catch(|| val.serialize_vec()) { Ok(Ok(b)) => b, _ => return Vec::new() };
        self.points(val.as_ref(), &bytes).into_iter().map(|k| { let mut s = self.clone(); s.point = Some(k); s }).collect()
    }

    pub fn simpler(&self) -> Vec<FileFault> {
        let mut out = Vec::new();
        for p in self.payload.simpler() {
            let mut s = self.clone(); s.payload = p.clone(); out.push(s);
            if let Some(k) = self.point { for kk in [0, k / 2, k.saturating_sub(8), k.saturating_sub(1)] { if kk < k { let mut s = self.clone(); s.payload = p.clone(); s.point = Some(kk); out.push(s); } } }
        }
        if let Some(k) = self.point { for kk in [0, k / 2, k.saturating_sub(8), k.saturating_sub(1)] { if kk < k { let mut s = self.clone(); s.point = Some(kk); out.push(s); } } }
        if !self.chunk.is_unbounded() { let mut s = self.clone(); s.chunk = Chunk::Unbounded; out.push(s); }
        if !self.eintr.is_empty() { let mut s = self.clone(); s.eintr.clear(); out.push(s); }
        out
    }
}

#[allow(dead_code)]
fn _unused(_: io::Error) {}
