pub mod fs;
pub mod map;
pub mod names;
pub mod stream;
