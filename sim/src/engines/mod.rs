pub mod fs;
pub mod map;
pub mod stream;
