//! In-memory file system behind the `verif_io` seam (concrete `File` users: the two buffered
//! writers, `serialize_to`, `load_from`). All behaviour is decided by an `FsPlan` (plain data).

use serde::{Deserialize, Serialize};
use std::cell::RefCell;
use std::collections::BTreeMap;
use std::io::{self, ErrorKind, SeekFrom};
use std::path::{Path, PathBuf};
use std::rc::Rc;

use simple_sds::verif_io::{self, FsBackend, OpenOptions};

use crate::rng::Rng;
use crate::simio::{gen_eintr, Chunk, IoStats, Kind, SIM_MSG};

#[derive(Clone, Debug, Serialize, Deserialize, PartialEq, Eq)]
pub enum FsFault {
    /// F1: the n-th `open` (0-based) fails.
    Open(u64, Kind),
    /// F2: the n-th `seek` fails.
    Seek(u64, Kind),
    /// F3: no file may grow beyond this many bytes; a write crossing the limit is cut short,
    /// the next one fails (like RLIMIT_FSIZE / a full disk). Overwriting existing bytes is allowed.
    Full(u64, Kind),
    /// F4: the n-th `write` call fails once; later calls succeed.
    WriteOnce(u64, Kind),
    /// The n-th `write` call and all later ones fail.
    WriteFrom(u64, Kind),
    /// Reads fail once the file offset has reached this position (sticky).
    ReadAt(u64, Kind),
}

#[derive(Clone, Debug, Serialize, Deserialize, PartialEq, Eq)]
pub struct FsPlan {
    pub chunk: Chunk,
    /// Indices of read/write calls that return `Interrupted`.
    pub eintr: Vec<u64>,
    pub fault: Option<FsFault>,
}

impl FsPlan {
    pub fn plain() -> FsPlan {
        FsPlan { chunk: Chunk::Unbounded, eintr: Vec::new(), fault: None }
    }

    pub fn generate(rng: &mut Rng, approx_calls: u64) -> FsPlan {
        FsPlan { chunk: Chunk::generate(rng), eintr: gen_eintr(rng, approx_calls), fault: None }
    }
}

struct Handle {
    path: PathBuf,
    pos: u64,
    read: bool,
    write: bool,
    append: bool,
}

#[derive(Default)]
pub struct FsCounters {
    pub opens: u64,
    pub seeks: u64,
    pub writes: u64,
    pub closes: u64,
    pub syncs: u64,
    pub open_failed: u64,
    pub seek_failed: u64,
    pub full_hits: u64,
    pub write_failed: u64,
    pub read_failed: u64,
    /// Offsets at which failing writes were attempted (for probes).
    pub fail_offsets: Vec<u64>,
}

pub struct FsState {
    pub files: BTreeMap<PathBuf, Vec<u8>>,
    handles: BTreeMap<u64, Handle>,
    next_handle: u64,
    plan: FsPlan,
    pub io: IoStats,
    pub counters: FsCounters,
    cap: u64,
}

fn injected(kind: Kind) -> io::Error {
    kind.error()
}

impl FsState {
    fn rw_prologue(&mut self) -> Result<u64, io::Error> {
        let call = self.io.calls;
        self.io.calls += 1;
        if self.io.calls > self.cap {
            self.io.exceeded_cap = true;
            return Err(io::Error::new(ErrorKind::Other, "sdsim: step cap exceeded"));
        }
        if self.plan.eintr.binary_search(&call).is_ok() {
            self.io.eintr += 1;
            self.io.note(b'i', 0);
            return Err(io::Error::new(ErrorKind::Interrupted, SIM_MSG));
        }
        Ok(call)
    }
}

pub struct SimFs(Rc<RefCell<FsState>>);

impl FsBackend for SimFs {
    fn open(&mut self, path: &Path, options: &OpenOptions) -> io::Result<u64> {
        let mut st = self.0.borrow_mut();
        let n = st.counters.opens;
        st.counters.opens += 1;
        if let Some(FsFault::Open(k, kind)) = st.plan.fault {
            if k == n { st.counters.open_failed += 1; st.io.note(b'O', 0); return Err(injected(kind)); }
        }
        st.io.note(b'o', 0);
        let exists = st.files.contains_key(path);
        if exists && options.create_new { return Err(io::Error::new(ErrorKind::AlreadyExists, "sdsim: file exists")); }
        if !exists {
            if (options.create || options.create_new) && (options.write || options.append) { st.files.insert(path.to_path_buf(), Vec::new()); }
            else { return Err(io::Error::new(ErrorKind::NotFound, "sdsim: no such file")); }
        } else if options.truncate && options.write {
            st.files.get_mut(path).unwrap().clear();
        }
        let h = st.next_handle;
        st.next_handle += 1;
        st.handles.insert(h, Handle { path: path.to_path_buf(), pos: 0, read: options.read, write: options.write || options.append, append: options.append });
        Ok(h)
    }

    fn write(&mut self, handle: u64, buf: &[u8]) -> io::Result<usize> {
        if buf.is_empty() { return Ok(0); }
        let mut st = self.0.borrow_mut();
        let call = st.rw_prologue()?;
        let nth = st.counters.writes;
        st.counters.writes += 1;
        let (path, mut pos, writable, append) = { let h = st.handles.get(&handle).ok_or_else(|| io::Error::new(ErrorKind::Other, "sdsim: bad handle"))?; (h.path.clone(), h.pos, h.write, h.append) };
        if append { pos = st.files.get(&path).map(|f| f.len() as u64).unwrap_or(0); st.handles.get_mut(&handle).unwrap().pos = pos; }
        if !writable { return Err(io::Error::new(ErrorKind::PermissionDenied, "sdsim: not open for writing")); }
        let mut room = usize::MAX;
        match st.plan.fault {
            Some(FsFault::WriteOnce(k, kind)) if k == nth => { st.counters.write_failed += 1; st.counters.fail_offsets.push(pos); st.io.err += 1; st.io.note(b'e', 0); return Err(injected(kind)); },
            Some(FsFault::WriteFrom(k, kind)) if nth >= k => { st.counters.write_failed += 1; st.counters.fail_offsets.push(pos); st.io.err += 1; st.io.note(b'e', 0); return Err(injected(kind)); },
            Some(FsFault::Full(limit, kind)) => {
                if pos >= limit { st.counters.full_hits += 1; st.counters.fail_offsets.push(pos); st.io.err += 1; st.io.note(b'e', 0); return Err(injected(kind)); }
                room = (limit - pos) as usize;
            },
            _ => {},
        }
        let limit = st.plan.chunk.limit(call, pos as usize);
        let n = buf.len().min(room).min(limit);
        let file = st.files.get_mut(&path).ok_or_else(|| io::Error::new(ErrorKind::NotFound, "sdsim: file vanished"))?;
        let pos = pos as usize;
        if file.len() < pos + n { file.resize(pos + n, 0); }
        file[pos..pos + n].copy_from_slice(&buf[..n]);
        st.handles.get_mut(&handle).unwrap().pos += n as u64;
        if n < buf.len() { st.io.short += 1; }
        st.io.note(if n < buf.len() { b's' } else { b'w' }, n);
        Ok(n)
    }

    fn read(&mut self, handle: u64, buf: &mut [u8]) -> io::Result<usize> {
        if buf.is_empty() { return Ok(0); }
        let mut st = self.0.borrow_mut();
        let call = st.rw_prologue()?;
        let (path, pos, readable) = { let h = st.handles.get(&handle).ok_or_else(|| io::Error::new(ErrorKind::Other, "sdsim: bad handle"))?; (h.path.clone(), h.pos as usize, h.read) };
        if !readable { return Err(io::Error::new(ErrorKind::PermissionDenied, "sdsim: not open for reading")); }
        let limit = st.plan.chunk.limit(call, pos);
        let mut room = usize::MAX;
        if let Some(FsFault::ReadAt(at, kind)) = st.plan.fault {
            if pos as u64 >= at { st.io.err += 1; st.counters.read_failed += 1; st.io.note(b'E', 0); return Err(injected(kind)); }
            room = (at - pos as u64) as usize;
        }
        let file = st.files.get(&path).ok_or_else(|| io::Error::new(ErrorKind::NotFound, "sdsim: file vanished"))?;
        if pos >= file.len() { st.io.eof += 1; return Ok(0); }
        let n = buf.len().min(file.len() - pos).min(limit).min(room);
        buf[..n].copy_from_slice(&file[pos..pos + n]);
        st.handles.get_mut(&handle).unwrap().pos += n as u64;
        if n < buf.len() { st.io.short += 1; }
        st.io.note(if n < buf.len() { b'S' } else { b'r' }, n);
        Ok(n)
    }

    fn seek(&mut self, handle: u64, pos: SeekFrom) -> io::Result<u64> {
        let mut st = self.0.borrow_mut();
        let n = st.counters.seeks;
        st.counters.seeks += 1;
        if let Some(FsFault::Seek(k, kind)) = st.plan.fault {
            if k == n { st.counters.seek_failed += 1; st.io.note(b'K', 0); return Err(injected(kind)); }
        }
        st.io.note(b'k', 0);
        let (path, cur) = { let h = st.handles.get(&handle).ok_or_else(|| io::Error::new(ErrorKind::Other, "sdsim: bad handle"))?; (h.path.clone(), h.pos) };
        let len = st.files.get(&path).map(|f| f.len() as u64).unwrap_or(0);
        let target: i128 = match pos {
            SeekFrom::Start(p) => p as i128,
            SeekFrom::End(d) => len as i128 + d as i128,
            SeekFrom::Current(d) => cur as i128 + d as i128,
        };
        if target < 0 { return Err(io::Error::new(ErrorKind::InvalidInput, "sdsim: negative seek")); }
        st.handles.get_mut(&handle).unwrap().pos = target as u64;
        Ok(target as u64)
    }

    fn flush(&mut self, _: u64) -> io::Result<()> {
        Ok(())
    }

    fn sync(&mut self, _: u64, _: bool) -> io::Result<()> {
        let mut st = self.0.borrow_mut();
        st.counters.syncs += 1;
        st.io.note(b'y', 0);
        Ok(())
    }

    fn set_len(&mut self, handle: u64, len: u64) -> io::Result<()> {
        let mut st = self.0.borrow_mut();
        let path = st.handles.get(&handle).ok_or_else(|| io::Error::new(ErrorKind::Other, "sdsim: bad handle"))?.path.clone();
        if let Some(FsFault::Full(limit, kind)) = st.plan.fault { if len > limit { return Err(injected(kind)); } }
        st.files.get_mut(&path).ok_or_else(|| io::Error::new(ErrorKind::NotFound, "sdsim: file vanished"))?.resize(len as usize, 0);
        Ok(())
    }

    fn len(&mut self, handle: u64) -> io::Result<u64> {
        let st = self.0.borrow();
        let path = &st.handles.get(&handle).ok_or_else(|| io::Error::new(ErrorKind::Other, "sdsim: bad handle"))?.path;
        Ok(st.files.get(path).map(|f| f.len() as u64).unwrap_or(0))
    }

    fn close(&mut self, handle: u64) {
        let mut st = self.0.borrow_mut();
        st.counters.closes += 1;
        st.io.note(b'c', 0);
        st.handles.remove(&handle);
    }
}

/// Installs a `SimFs` for the current thread; uninstalls it when dropped.
pub struct FsSession {
    state: Rc<RefCell<FsState>>,
}

impl FsSession {
    pub fn start(plan: FsPlan, expected_bytes: usize) -> FsSession {
        let cap = 4 * expected_bytes as u64 + plan.eintr.len() as u64 + 256;
        let state = Rc::new(RefCell::new(FsState {
            files: BTreeMap::new(), handles: BTreeMap::new(), next_handle: 1, plan,
            io: IoStats::default(), counters: FsCounters::default(), cap,
        }));
        verif_io::install(Box::new(SimFs(state.clone())));
        FsSession { state }
    }

    pub fn file(&self, path: &Path) -> Option<Vec<u8>> {
        self.state.borrow().files.get(path).cloned()
    }

    pub fn put(&self, path: &Path, data: Vec<u8>) {
        self.state.borrow_mut().files.insert(path.to_path_buf(), data);
    }

    /// Renames a file the way a file system does: open handles follow the file, not the name.
    pub fn rename(&self, from: &Path, to: &Path) {
        let mut st = self.state.borrow_mut();
        if let Some(data) = st.files.remove(from) { st.files.insert(to.to_path_buf(), data); }
        for h in st.handles.values_mut() { if h.path == from { h.path = to.to_path_buf(); } }
    }

    pub fn open_handles(&self) -> usize {
        self.state.borrow().handles.len()
    }

    pub fn with<R, F: FnOnce(&FsState) -> R>(&self, f: F) -> R {
        f(&self.state.borrow())
    }
}

impl Drop for FsSession {
    fn drop(&mut self) {
        let _ = verif_io::uninstall();
    }
}
